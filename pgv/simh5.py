"""
simh5 -- an mpio-emulating front for h5py.File (DESIGN 2.2).

h5py here is built without the mpio driver.  install() replaces the name `h5py` inside
pygyro.model.grid and pygyro.initialisation.setups by a proxy whose File(..., driver='mpio',
comm=c) is a collective on c: the real file is opened once with the serial driver and shared by
the members; create_dataset / attrs.create / close are collective metadata operations whose
arguments must agree between ranks; dset[slices] = block is an independent write.
"""
import h5py as _real
import numpy as np

from .simmpi import core


def _key(x):
    if isinstance(x, np.ndarray):
        return ("nd", x.dtype.str, x.shape, x.tobytes())
    if isinstance(x, (list, tuple)):
        return tuple(_key(v) for v in x)
    if isinstance(x, (np.integer,)):
        return int(x)
    try:
        hash(x)
        return x
    except TypeError:
        return repr(x)


class _Attrs:
    def __init__(self, comm, real):
        self._comm = comm
        self._real = real

    def create(self, name, data, shape=None, dtype=None):
        key = ("attr", name, _key(np.asarray(data)), _key(shape), repr(dtype))
        return self._comm.sim_collective("h5.attrs.create", key,
                                         lambda: self._real.create(name, data, shape, dtype))

    def __getitem__(self, k):
        return self._real[k]


class _Dataset:
    def __init__(self, comm, real):
        self._comm = comm
        self._real = real
        self.attrs = _Attrs(comm, real.attrs)

    def __setitem__(self, sl, val):
        # independent write; empty selections are no-ops
        self._real[sl] = val

    def __getitem__(self, sl):
        return self._real[sl]

    @property
    def shape(self):
        return self._real.shape

    @property
    def dtype(self):
        return self._real.dtype


class MpioFile:
    def __init__(self, name, mode, comm, **kw):
        self._comm = comm
        self._name = name
        self._real = comm.sim_collective("h5.File", ("file", str(name), mode),
                                         lambda: _real.File(name, mode, **kw))

    def create_dataset(self, name, shape=None, dtype=None, **kw):
        key = ("dset", name, _key(tuple(shape) if shape is not None else None), np.dtype(dtype).str)
        ds = self._comm.sim_collective("h5.create_dataset", key,
                                       lambda: self._real.create_dataset(name, shape, dtype=dtype, **kw))
        return _Dataset(self._comm, ds)

    def __getitem__(self, k):
        return _Dataset(self._comm, self._real[k])

    def close(self):
        self._comm.sim_collective("h5.close", ("close", str(self._name)), lambda: self._real.close())


class H5Proxy:
    """Stands in for the module `h5py` inside pygyro modules."""

    def __getattr__(self, name):
        return getattr(_real, name)

    @staticmethod
    def File(name, mode="r", driver=None, comm=None, **kw):
        if driver == "mpio":
            if comm is None:
                comm = core.COMM_WORLD
            return MpioFile(name, mode, comm, **kw)
        if driver is not None:
            kw["driver"] = driver
        return _real.File(name, mode, **kw)


_installed = False


def install():
    global _installed
    if _installed:
        return
    import pygyro.model.grid as g
    import pygyro.initialisation.setups as s
    proxy = H5Proxy()
    g.h5py = proxy
    s.h5py = proxy
    _installed = True
