"""
sim -- the distributed simulation fixture: builds, on every rank of a simulated world, exactly the objects
that fullSimulation.main() builds (distribution function grid, phi/rho grids with their layout managers,
advection operators, density finder, quasi-neutrality solver, diagnostics) and offers helpers to fill grids
from / assemble grids into *global* arrays, so that results can be compared between process grids and with
the operator references.  Used by C05, C06, C11 (grid), C15, C16, C17, C18.

A simulation configuration is a JSON dict, see sim_config().
"""
import contextlib
import io
import json
import os
import shutil
import sys
import tempfile

import numpy as np
from hypothesis import strategies as st

from . import bootstrap
from .harness import Violation
from .oracles import globalarr as ga

STD_LAYOUTS = {'flux_surface': [0, 3, 1, 2], 'v_parallel': [0, 2, 1, 3], 'poloidal': [3, 2, 1, 0]}
TWO_PI = 2 * np.pi


# ----------------------------------------------------------------------------------------
# configurations
# ----------------------------------------------------------------------------------------
def base_cfg(npts, iota=0.0, R0=2.0, eps=1e-2, m=2, n=1, dt=2, degrees=(3, 3, 3, 3)):
    return {"npts": list(npts), "iotaVal": float(iota), "R0": float(R0), "eps": float(eps), "m": int(m),
            "n": int(n), "dt": int(dt), "splineDegrees": list(degrees)}


@st.composite
def phys(draw):
    """Physical constants away from their defaults (possibly {}): a dict merged into the set-up keywords / the constants
    file of a configuration."""
    out = {}
    if draw(st.booleans()):
        # profile constants away from their defaults and from each other (the shipped files set kTe = kTi,
        # deltaRTe = deltaRTi, CTe = CTi, which would hide a mix-up between ion and electron profiles)
        out.update({"kTi": draw(st.sampled_from([0.27586, 0.2, 0.35])), "kTe": draw(st.sampled_from([0.27586, 0.15, 0.4])),
                    "deltaRTi": draw(st.sampled_from([1.45, 1.0, 2.0])), "deltaRTe": draw(st.sampled_from([1.45, 0.9, 2.3])),
                    "CTi": draw(st.sampled_from([1.0, 0.8])), "CTe": draw(st.sampled_from([1.0, 1.3])),
                    "kN0": draw(st.sampled_from([0.055, 0.08])), "deltaRN0": draw(st.sampled_from([2.9, 2.0]))})
    if draw(st.integers(0, 2)) == 0:
        # the domain and the field strength away from the defaults as well (vMin is not always -vMax)
        vmax = draw(st.sampled_from([7.32, 6.5]))
        out.update({"B0": draw(st.sampled_from([1.0, 1.7])), "rMin": draw(st.sampled_from([0.1, 0.5])),
                    "rMax": draw(st.sampled_from([14.5, 10.0])), "vMax": vmax, "vMin": draw(st.sampled_from([-vmax, -6.0])),
                    "rp": draw(st.sampled_from([7.3, 6.0])), "deltaR": draw(st.sampled_from([8.0, 5.0]))})
    return out


@st.composite
def sim_config(draw, tier, small=True):
    nr = draw(st.integers(5, 7))
    # theta may have fewer points than there are processes along r: the driver's mode_solve layout distributes the
    # theta modes over nprocs[0], which is chosen from r, z and v only, so some ranks then own an empty block there
    nq = draw(st.sampled_from([4, 5, 6, 7, 8, 4, 5]))
    nz = draw(st.integers(7, 9))
    nv = draw(st.integers(5, 7))
    iota = draw(st.sampled_from([0.8, 0.0, 0.8, -0.8]))
    R0 = draw(st.sampled_from([2.0, 5.0, 239.8081535]))
    cfg = base_cfg([nr, nq, nz, nv], iota, R0, eps=draw(st.sampled_from([1e-2, 0.05])),
                   m=draw(st.integers(0, 3)), n=draw(st.integers(-2, 2)), dt=draw(st.sampled_from([1, 2, 3])))
    ph = draw(phys())
    if ph:
        cfg["phys"] = ph
    if draw(st.integers(0, 3)) == 0:
        # spline degrees other than the cubic default (general, non-uniform-cubic code path of every operator)
        # (Spline2D asserts that its two directions are both uniform-cubic or both general: r and theta go together)
        cfg["splineDegrees"] = list(draw(st.sampled_from([(3, 3, 3, 4), (3, 3, 2, 3), (3, 3, 4, 2), (2, 4, 3, 3), (4, 2, 3, 3),
                                                          (2, 2, 2, 2), (4, 4, 3, 4)])))
    return cfg


def admissible_grids(npts, maxP):
    out = []
    for p0 in range(1, min(npts[0], npts[3]) + 1):
        for p1 in range(1, min(npts[2], npts[3]) + 1):
            if p0 * p1 <= maxP:
                out.append([p0, p1])
    return out


def cfg_kwargs(cfg):
    kw = {"npts": list(cfg["npts"]), "iotaVal": cfg["iotaVal"], "R0": cfg["R0"], "eps": cfg["eps"],
          "m": cfg["m"], "n": cfg["n"], "dt": cfg["dt"], "splineDegrees": list(cfg["splineDegrees"]),
          "zMax": cfg["R0"] * 2 * np.pi}
    kw.update(cfg.get("phys", {}))
    return kw


def constants_json(cfg, symbolic=True):
    """Text of a constants file in the style of the shipped testSetups/*.json."""
    d = {"B0": 1.0, "R0": cfg["R0"], "rMin": 0.1, "rMax": 14.5, "zMin": 0.0,
         "zMax": "R0*2*pi" if symbolic else cfg["R0"] * 2 * np.pi,
         "vMax": 7.32, "vMin": "-vMax" if symbolic else -7.32, "eps": cfg["eps"], "eps0": 8.854187817e-12,
         "kN0": 0.055, "kTi": 0.27586, "kTe": "kTi" if symbolic else 0.27586, "deltaRTi": 1.45,
         "deltaRTe": "deltaRTi" if symbolic else 1.45, "deltaRN0": "2.0*deltaRTe" if symbolic else 2.9,
         "deltaR": "4.0*deltaRN0/deltaRTi" if symbolic else 8.0, "CTi": 1.0, "CTe": "CTi" if symbolic else 1.0,
         "m": cfg["m"], "n": cfg["n"], "iotaVal": cfg["iotaVal"], "npts": list(cfg["npts"]),
         "splineDegrees": list(cfg["splineDegrees"]), "dt": cfg["dt"]}
    d.update(cfg.get("phys", {}))
    return json.dumps(d, indent=0)


# ----------------------------------------------------------------------------------------
# building blocks (per rank)
# ----------------------------------------------------------------------------------------
def setup_distrib(comm, cfg, layout, nprocs=None, save=True, dtype=float):
    """
    The distribution-function grid.  nprocs=None -> the real setupCylindricalGrid (its own process grid);
    otherwise the same construction with an explicit process grid.
    """
    from pygyro.initialisation.setups import setupCylindricalGrid
    if nprocs is None:
        grid, constants, t = setupCylindricalGrid(layout=layout, comm=comm, allocateSaveMemory=save, dtype=dtype,
                                                  **cfg_kwargs(cfg))
        return grid, constants
    from pygyro import splines as spl
    from pygyro.model.layout import getLayoutHandler
    from pygyro.model.grid import Grid
    from pygyro.initialisation.constants import Constants
    from pygyro.initialisation.initialiser import initialise_flux_surface, initialise_poloidal, initialise_v_parallel
    constants = Constants()
    for k, v in cfg_kwargs(cfg).items():
        setattr(constants, k, v)
    domain = [[constants.rMin, constants.rMax], [0, 2 * np.pi], [constants.zMin, constants.zMax],
              [constants.vMin, constants.vMax]]
    degree = constants.splineDegrees
    period = [False, True, True, False]
    nkts = [n + 1 + d * (int(p) - 1) for (n, d, p) in zip(constants.npts, degree, period)]
    breaks = [np.linspace(*lims, num=num) for (lims, num) in zip(domain, nkts)]
    knots = [spl.make_knots(b, d, p) for (b, d, p) in zip(breaks, degree, period)]
    bsplines = [spl.BSplines(k, d, p, True) for (k, d, p) in zip(knots, degree, period)]
    eta_grids = [b.greville for b in bsplines]
    remapper = getLayoutHandler(comm, dict(STD_LAYOUTS), list(nprocs), eta_grids)
    grid = Grid(eta_grids, bsplines, remapper, layout, comm, dtype=dtype, allocateSaveMemory=save)
    {"flux_surface": initialise_flux_surface, "v_parallel": initialise_v_parallel,
     "poloidal": initialise_poloidal}[layout](grid, constants)
    return grid, constants


class RankSim:
    """Everything fullSimulation.main() builds before its time loop, for one rank."""

    def __init__(self, comm, cfg, nprocs=None, layout="v_parallel", save=True, diagnostics=True, save_step=5,
                 chi=0, adiabatic=True, qn_degree=7):
        from pygyro.diagnostics.diagnostic_collector import DiagnosticCollector
        from pygyro.poisson.poisson_solver import DensityFinder, QuasiNeutralitySolver
        from pygyro.advection.advection import (FluxSurfaceAdvection, VParallelAdvection, PoloidalAdvection,
                                                ParallelGradient)
        from pygyro.model.grid import Grid
        from pygyro.model.layout import LayoutSwapper, getLayoutHandler
        self.comm = comm
        self.cfg = cfg
        self.f, self.constants = setup_distrib(comm, cfg, layout, nprocs, save)
        c = self.constants
        f = self.f
        self.halfStep = c.dt * 0.5
        self.fullStep = c.dt
        self.fluxAdv = FluxSurfaceAdvection(f.eta_grid, (f.getSpline(1), f.getSpline(2)),
                                            f.getLayout('flux_surface'), self.halfStep, c)
        self.vParAdv = VParallelAdvection(f.eta_grid, f.getSpline(3), c)
        self.polAdv = PoloidalAdvection(f.eta_grid, f.getSpline(slice(1, None, -1)), c)
        self.parGradVals = np.empty([f.getLayout('v_parallel').shape[0], c.npts[2], c.npts[1]])
        layout_poisson = {'v_parallel_2d': [0, 2, 1], 'mode_solve': [1, 2, 0]}
        layout_vpar = {'v_parallel_1d': [0, 2, 1]}
        layout_poloidal = {'poloidal': [2, 1, 0]}
        self.nprocs = f.getLayout('v_parallel').nprocs[:2]
        self.phi_layouts = [layout_poisson, layout_vpar, layout_poloidal]
        self.phi_nprocs = [self.nprocs, self.nprocs[0], self.nprocs[1]]
        self.remapperPhi = LayoutSwapper(comm, self.phi_layouts, self.phi_nprocs, f.eta_grid[:3], 'mode_solve')
        self.remapperRho = getLayoutHandler(comm, layout_poisson, self.nprocs, f.eta_grid[:3])
        self.phi = Grid(f.eta_grid[:3], f.getSpline(slice(0, 3)), self.remapperPhi, 'mode_solve', comm,
                        dtype=np.complex128)
        self.rho = Grid(f.eta_grid[:3], f.getSpline(slice(0, 3)), self.remapperRho, 'v_parallel_2d', comm,
                        dtype=np.complex128)
        self.density = DensityFinder(6, f.getSpline(3), f.eta_grid, c)
        if adiabatic:
            self.QN = QuasiNeutralitySolver(f.eta_grid[:3], qn_degree, f.getSpline(0), c, chi=chi)
        else:
            self.QN = QuasiNeutralitySolver(f.eta_grid[:3], qn_degree, f.getSpline(0), c, adiabaticElectrons=False)
        self.parGrad = ParallelGradient(f.getSpline(1), f.eta_grid, self.remapperPhi.getLayout('v_parallel_1d'), c)
        self.diagnostics = DiagnosticCollector(comm, save_step, self.fullStep, f, self.phi) if diagnostics else None

    # -- fresh grids sharing the managers -------------------------------------------------
    def new_phi(self, layout, dtype=np.complex128):
        from pygyro.model.grid import Grid
        f = self.f
        return Grid(f.eta_grid[:3], f.getSpline(slice(0, 3)), self.remapperPhi, layout, self.comm, dtype=dtype)

    def solve_qn(self):
        """density -> modes -> solve -> inverse transform, exactly as the driver does it."""
        f, rho, phi = self.f, self.rho, self.phi
        if f.currentLayout != 'v_parallel':
            f.setLayout('v_parallel')
        self.density.getPerturbedRho(f, rho)
        self.QN.getModes(rho)
        rho.setLayout('mode_solve')
        phi.setLayout('mode_solve')
        self.QN.solveEquation(phi, rho)
        phi.setLayout('v_parallel_2d')
        rho.setLayout('v_parallel_2d')
        self.QN.findPotential(phi)

    def strang_step(self):
        """One iteration of the driver's time loop (without diagnostics / output)."""
        f, phi = self.f, self.phi
        half, full = self.halfStep, self.fullStep
        f.setLayout('flux_surface')
        f.saveGridValues()
        self.fluxAdv.gridStep(f)
        f.setLayout('v_parallel')
        phi.setLayout('v_parallel_1d')
        self.vParAdv.gridStep(f, phi, self.parGrad, self.parGradVals, half)
        f.setLayout('poloidal')
        phi.setLayout('poloidal')
        self.polAdv.gridStep(f, phi, half)
        self.solve_qn()
        f.restoreGridValues()
        self.fluxAdv.gridStep(f)
        f.setLayout('v_parallel')
        phi.setLayout('v_parallel_1d')
        self.vParAdv.gridStep(f, phi, self.parGrad, self.parGradVals, half)
        f.setLayout('poloidal')
        phi.setLayout('poloidal')
        self.polAdv.gridStep(f, phi, full)
        f.setLayout('v_parallel')
        self.vParAdv.gridStepKeepGradient(f, self.parGradVals, half)
        f.setLayout('flux_surface')
        self.fluxAdv.gridStep(f)
        self.solve_qn()


# ----------------------------------------------------------------------------------------
# global <-> local
# ----------------------------------------------------------------------------------------
def fill(grid, F):
    """Overwrite the local block of `grid` (current layout) from the global array F (natural dim order)."""
    l = grid.getLayout(grid.currentLayout)
    grid.getAllData()[:] = ga.block(F, l.dims_order, l.starts, l.ends)


def piece(grid, data=None):
    """What a rank reports so that the main thread can assemble the global array."""
    l = grid.getLayout(grid.currentLayout)
    d = grid.getAllData() if data is None else data
    return (tuple(l.dims_order), tuple(int(x) for x in l.starts), tuple(int(x) for x in l.ends),
            np.array(d, copy=True))


def assemble(pieces, shape, what="field"):
    """pieces: one per rank (or None).  Returns the global array in natural dimension order."""
    dt = None
    for p in pieces:
        if p is not None:
            dt = p[3].dtype
            break
    G = np.full(shape, np.nan, dtype=dt)
    seen = np.zeros(shape, dtype=bool)
    for rk, p in enumerate(pieces):
        if p is None:
            continue
        order, starts, ends, data = p
        sl = tuple(slice(s, e) for s, e in zip(starts, ends))
        view = G.transpose(order)[sl]
        sv = seen.transpose(order)[sl]
        if data.shape != view.shape:
            raise Violation("assemble:shape", "%s: rank %d reports block of shape %s for range %s..%s"
                            % (what, rk, data.shape, starts, ends))
        if sv.any():
            old = view[sv]
            new = data[sv]
            if not ga.bits_equal(old, new):
                raise Violation("replicas-differ", "%s: rank %d holds data different from another replica (max diff %.3e)"
                                % (what, rk, float(np.nanmax(np.abs(old - new)))))
        view[...] = data
        sv[...] = True
    if not seen.all():
        raise Violation("assemble:gap", "%s: %d global points are owned by no rank" % (what, int((~seen).sum())))
    return G


def smooth_noise_field(shape, seed, modes=2, noise=0.3):
    """Deterministic generic field: a few low modes plus seeded noise (no symmetry to hide index errors)."""
    rng = np.random.default_rng(seed)
    axes = [np.linspace(0, 1, n, endpoint=False) for n in shape]
    F = np.zeros(shape)
    for _ in range(modes):
        ks = rng.integers(0, 3, size=len(shape))
        ph = rng.uniform(0, TWO_PI)
        arg = ph
        for a, (k, x) in enumerate(zip(ks, axes)):
            sh = [1] * len(shape)
            sh[a] = len(x)
            arg = arg + TWO_PI * k * x.reshape(sh)
        F = F + rng.uniform(0.3, 1.0) * np.cos(arg)
    return F + noise * rng.standard_normal(shape)


def equilibrium_like_field(cfg, eta, seed, rel=0.2):
    """f_eq(r,v) * (1 + rel * generic field): positive, realistic magnitudes, no symmetry."""
    from .oracles import advect
    from pygyro.initialisation.constants import Constants
    c = Constants()
    for k, v in cfg_kwargs(cfg).items():
        setattr(c, k, v)
    cd = advect.const_dict(c)
    feq = advect.f_eq(eta[0][:, None], eta[3][None, :], cd)
    shape = tuple(len(e) for e in eta)
    return feq[:, None, None, :] * (1.0 + rel * smooth_noise_field(shape, seed))


# ----------------------------------------------------------------------------------------
# scratch directory + quiet stdout for driver runs
# ----------------------------------------------------------------------------------------
@contextlib.contextmanager
def scratch_cwd(prefix="pgv-sim-"):
    old = os.getcwd()
    d = tempfile.mkdtemp(prefix=prefix)
    os.chdir(d)
    try:
        yield d
    finally:
        os.chdir(old)
        shutil.rmtree(d, ignore_errors=True)


@contextlib.contextmanager
def quiet():
    buf = io.StringIO()
    with contextlib.redirect_stdout(buf):
        yield buf


def install():
    bootstrap.prepare()
    from . import simh5
    simh5.install()


