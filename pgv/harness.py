"""
harness -- shared plumbing of all checks.

A check module (pgv/checks/cXX.py) defines

    PROPERTY = "C01"
    RULE     = "how cases are generated and what makes one non-trivial"
    ASSUMPTIONS = [...]
    SUBS = {name: Sub(...)}          # sub-checks (generator + predicate)
    def jobs(tier) -> [ {"sub": name, "n": examples, "shard": i, "nshards": k}, ... ]

A *case* is a JSON-serialisable dict; predicate(case) executes the real code and the oracle
and returns an info dict {"nontrivial": bool, "labels": [...], "evals": int} or raises
Violation(key, message) / Inconclusive(reason).  Replay = predicate(case) without Hypothesis.
"""
import hashlib
import json
import os
import time
import traceback
from collections import Counter
from contextlib import contextmanager


class Violation(Exception):
    def __init__(self, key, msg):
        super().__init__("%s :: %s" % (key, msg))
        self.key = key
        self.msg = msg


class Inconclusive(Exception):
    pass


class Sub:
    def __init__(self, predicate, strategy=None, enumerate=None, exhaustive=False, doc=""):
        self.predicate = predicate
        self.strategy = strategy        # fn(tier) -> hypothesis strategy of case dicts
        self.enumerate = enumerate      # fn(tier, shard, nshards) -> iterator of case dicts
        self.exhaustive = exhaustive
        self.doc = doc


def digest(case):
    return hashlib.sha1(json.dumps(case, sort_keys=True, default=str).encode()).hexdigest()[:16]


def jsonable(x):
    """Best-effort conversion of numpy scalars/arrays inside case dicts."""
    import numpy as np
    if isinstance(x, dict):
        return {str(k): jsonable(v) for k, v in x.items()}
    if isinstance(x, (list, tuple)):
        return [jsonable(v) for v in x]
    if isinstance(x, np.ndarray):
        return x.tolist()
    if isinstance(x, (np.integer,)):
        return int(x)
    if isinstance(x, (np.floating,)):
        return float(x)
    if isinstance(x, (np.bool_,)):
        return bool(x)
    return x


class Recorder:
    MAX_SAMPLES = 4

    def __init__(self):
        self.evaluations = 0
        self.cases = 0
        self.labels = Counter()
        self.nontrivial = set()
        self.nontrivial_count = 0       # for enumerations (distinct by construction)
        self.samples = []
        self.trivial_samples = []
        self.excluded_known = 0
        self.inconclusive = 0
        self.inconclusive_reasons = Counter()

    def note(self, case, info, enumerated=False):
        info = info or {}
        self.cases += 1
        self.evaluations += int(info.get("evals", 1))
        for l in info.get("labels", ()):
            self.labels[l] += 1
        if enumerated and "nontrivial_count" in info:
            self.nontrivial_count += int(info["nontrivial_count"])
            if info["nontrivial_count"] and len(self.samples) < self.MAX_SAMPLES:
                self.samples.append(jsonable(info.get("sample", case)))
        elif info.get("nontrivial"):
            if enumerated:
                self.nontrivial_count += 1
            else:
                self.nontrivial.add(digest(case))
            if len(self.samples) < self.MAX_SAMPLES:
                self.samples.append(jsonable(case))
        elif len(self.trivial_samples) < 1:
            self.trivial_samples.append(jsonable(case))

    def dump(self):
        return {
            "evaluations": self.evaluations, "cases": self.cases, "labels": dict(self.labels),
            "nontrivial": sorted(self.nontrivial), "nontrivial_count": self.nontrivial_count,
            "samples": self.samples, "trivial_samples": self.trivial_samples,
            "excluded_known": self.excluded_known, "inconclusive": self.inconclusive,
            "inconclusive_reasons": dict(self.inconclusive_reasons),
        }


# ----------------------------------------------------------------------------
# helpers for predicates
# ----------------------------------------------------------------------------
def pkg_frame(tb_text_or_exc):
    """Innermost frame inside the pygyro package (or fullSimulation) of a traceback: 'file:func'."""
    import re
    if isinstance(tb_text_or_exc, BaseException):
        text = "".join(traceback.format_exception(type(tb_text_or_exc), tb_text_or_exc,
                                                  tb_text_or_exc.__traceback__))
    else:
        text = tb_text_or_exc or ""
    frames = re.findall(r'File "([^"]+)", line \d+, in (\S+)', text)
    best = None
    for f, fn in frames:
        if "/pygyro/" in f or f.endswith("fullSimulation.py"):
            best = "%s:%s" % (os.path.basename(f), fn)
    return best or "?"


@contextmanager
def crash_is_violation(key, what):
    """Exceptions of the code under test inside this block become violations."""
    try:
        yield
    except (Violation, Inconclusive):
        raise
    except Exception as e:  # noqa
        raise Violation("%s:crash:%s@%s" % (key, type(e).__name__, pkg_frame(e)),
                        "%s raised %s: %s" % (what, type(e).__name__, e))


def run_world(P, fn, args=(), schedule=(), eager=False, reduce_seed=0, key="mpi", world=None,
              fallback="rr"):
    """
    Run fn SPMD on a simulated world; turn world-level verdicts into violations.
    Returns (results, world).
    """
    from . import simmpi
    w = world if world is not None else simmpi.World(P, schedule=schedule, eager=eager,
                                                     reduce_seed=reduce_seed, fallback=fallback)
    try:
        res = w.run(fn, *args)
    except simmpi.Deadlock as e:
        raise Violation(key + ":deadlock", str(e))
    except simmpi.CollectiveMismatch as e:
        raise Violation(key + ":collective-mismatch", str(e))
    except simmpi.RankFailure as e:
        # a Violation raised inside a rank is passed through
        for r, ex in sorted(e.excs.items()):
            if isinstance(ex, Nontermination):
                raise ex
            if isinstance(ex, Violation):
                raise ex
            if isinstance(ex, Inconclusive):
                raise ex
        r0 = sorted(e.excs)[0]
        ex = e.excs[r0]
        tbs = getattr(e, "tracebacks", {})
        where = pkg_frame(tbs.get(r0, ""))
        if where == "?":
            # no frame of the code under test: an error of the harness code inside the rank
            raise RuntimeError("harness error inside rank %d:\n%s" % (r0, tbs.get(r0, "")))
        kind = "divergent-crash" if (e.blocked or e.finished) else "crash"
        raise Violation("%s:%s:%s@%s" % (key, kind, type(ex).__name__, where), str(e))
    return res, w


# ----------------------------------------------------------------------------
# hang guard: wall-clock alarm -> deterministic line-event budget
# ----------------------------------------------------------------------------
class _Hang(BaseException):
    """The wall-clock alarm fired (never a verdict by itself)."""


class Nontermination(BaseException):
    """The deterministic line-event budget was exceeded (raised by the tracer, in any thread)."""


def traced_call(fn, arg, budget):
    """Run fn(arg) counting 'line' events in every thread; Nontermination when the budget is exceeded."""
    import sys
    import threading
    n = [0]

    def tracer(frame, event, a):
        if event == "line":
            n[0] += 1
            if n[0] > budget:
                raise Nontermination()
        return tracer
    old = sys.gettrace()
    threading.settrace(tracer)
    sys.settrace(tracer)
    try:
        return fn(arg)
    finally:
        sys.settrace(old)
        threading.settrace(None)


def guarded(predicate, case, seconds, budget, key):
    """
    predicate(case) under a wall-clock alarm.  When the alarm fires the case is repeated under a deterministic
    budget of line events (all threads); only exceeding that budget is reported, as <key>:nontermination.
    """
    import signal
    import threading
    if threading.current_thread() is not threading.main_thread():
        return predicate(case)

    def on_alarm(sig, frm):
        raise _Hang()
    old = signal.signal(signal.SIGALRM, on_alarm)
    signal.setitimer(signal.ITIMER_REAL, seconds)
    try:
        try:
            return predicate(case)
        finally:
            signal.setitimer(signal.ITIMER_REAL, 0)
    except _Hang:
        pass
    finally:
        signal.signal(signal.SIGALRM, old)
    try:
        return traced_call(predicate, case, budget)
    except Nontermination:
        raise Violation(key + ":nontermination",
                        "no result after %.0f s; repeated under a line-event budget: more than %d line events" % (seconds, budget))


# ----------------------------------------------------------------------------
# worker: run one job
# ----------------------------------------------------------------------------
def _hyp_settings(n, tier):
    from hypothesis import settings, HealthCheck, Phase
    return settings(max_examples=n, database=None, deadline=None, derandomize=False,
                    report_multiple_bugs=False,
                    suppress_health_check=list(HealthCheck),
                    phases=[Phase.generate, Phase.shrink])


def run_job(module, job, tier, seed, excluded_keys):
    """Execute one job in this process; returns a result dict."""
    import hypothesis
    from hypothesis import given
    t0 = time.time()
    sub = module.SUBS[job["sub"]]
    rec = Recorder()
    violations = []
    excluded = set(excluded_keys)
    shrink_cap = 60.0 if tier == "quick" else 240.0
    hang_s = float(getattr(module, "HANG_SECONDS", 120.0))
    budget = int(getattr(module, "LINE_BUDGET", 30000000))
    prop = getattr(module, "PROPERTY", "P")

    def pred(case):
        return guarded(sub.predicate, case, hang_s, budget, prop)

    if sub.enumerate is not None:
        for case in sub.enumerate(tier, job.get("shard", 0), job.get("nshards", 1)):
            try:
                info = pred(case)
            except Inconclusive as e:
                rec.inconclusive += 1
                rec.inconclusive_reasons[str(e)[:60]] += 1
                continue
            except Violation as v:
                if v.key in excluded:
                    rec.excluded_known += 1
                    continue
                violations.append({"sub": job["sub"], "key": v.key, "case": jsonable(case),
                                   "failure": v.msg[:2000]})
                excluded.add(v.key)
                continue
            rec.note(case, info, enumerated=True)
    else:
        base_seed = (int(seed) * 1000003 + job.get("shard", 0) * 7919 + _stable_hash(job["sub"])) % (2 ** 31)
        rounds = 0
        while rounds < 4:
            last = {}
            state = {"t_fail": None}

            def body(case):
                if state["t_fail"] is not None and time.time() - state["t_fail"] > shrink_cap:
                    return      # shrink budget used up: stop shrinking (see DESIGN 1)
                if state.get("hung"):
                    return      # after a non-termination verdict nothing more is executed in this job
                try:
                    info = pred(case)
                except Inconclusive as e:
                    rec.inconclusive += 1
                    rec.inconclusive_reasons[str(e)[:60]] += 1
                    return
                except Violation as v:
                    if v.key in excluded:
                        rec.excluded_known += 1
                        return
                    if v.key.endswith(":nontermination"):
                        state["hung"] = True
                    if state["t_fail"] is None:
                        state["t_fail"] = time.time()
                        last["first_case"] = jsonable(case)
                    last["case"] = jsonable(case)
                    last["v"] = v
                    raise
                if state["t_fail"] is None:
                    rec.note(case, info)

            test = given(sub.strategy(tier))(body)
            test = hypothesis.seed(base_seed + rounds)(test)
            test = _hyp_settings(job["n"], tier)(test)
            try:
                test()
            except Violation:
                pass
            except Exception as e:  # Flaky etc. after the shrink cap, or a harness error
                if "v" not in last:
                    raise
            if "v" not in last:
                break
            v = last["v"]
            violations.append({"sub": job["sub"], "key": v.key, "case": last["case"],
                               "first_case": last.get("first_case"), "failure": v.msg[:2000]})
            excluded.add(v.key)
            rounds += 1
            if state.get("hung"):
                break

    out = rec.dump()
    out.update({"job": job, "violations": violations, "wall_s": time.time() - t0,
                "exhaustive": bool(sub.exhaustive)})
    return out


def _stable_hash(s):
    return int(hashlib.sha1(s.encode()).hexdigest()[:8], 16)


def replay_case(module, subname, case):
    """Run one stored case through its predicate.  Returns None or a Violation."""
    sub = module.SUBS[subname]
    try:
        guarded(sub.predicate, case, float(getattr(module, "HANG_SECONDS", 120.0)),
                int(getattr(module, "LINE_BUDGET", 30000000)), getattr(module, "PROPERTY", "P"))
    except Violation as v:
        return v
    except Inconclusive:
        return None
    return None


def interpreted_kernels():
    """True when the pygyro kernels in use are the interpreted .py files (no compiled extension shadows them).  Only then are
    strided / Fortran-ordered arguments handed to in-place entry points: a compiled extension may insist on contiguous data."""
    import importlib
    for name in ("pygyro.splines.spline_eval_funcs", "pygyro.splines.cubic_uniform_spline_eval_funcs",
                 "pygyro.advection.accelerated_advection_steps", "pygyro.initialisation.initialiser_funcs"):
        try:
            m = importlib.import_module(name)
        except Exception:
            return False
        if not str(getattr(m, "__file__", "")).endswith(".py"):
            return False
    return True
