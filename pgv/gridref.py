"""
gridref -- grid-level references: what every grid-level operator must produce on the *global* field when each
slice is treated with the physical parameters of its own global coordinates.  Built from the per-slice operator
references (oracles.advect) and the spline/quadrature references (oracles.bspl).

Global arrays are in natural dimension order: f[r, theta, z, v], phi[r, theta, z].
"""
import numpy as np

from .oracles import advect, bspl

TWO_PI = 2 * np.pi


def space_of(basis):
    """Space dict (oracles.bspl) describing a pygyro BSplines object built by the setups (uniform breaks)."""
    br = np.asarray(basis.breaks, dtype=float)
    return {"degree": int(basis.degree), "periodic": bool(basis.periodic), "uniform": bool(basis.cubic_uniform),
            "breaks": [float(x) for x in br], "uniform_breaks": True}


class GridRef:
    def __init__(self, eta, bsplines, constants):
        self.eta = [np.asarray(e, dtype=float) for e in eta]
        self.bs = bsplines
        self.c = constants
        self.cd = advect.const_dict(constants)
        self.spaces = [space_of(b) for b in bsplines]
        self.tint = advect.ThetaInterp(self.spaces[1], bsplines[1], self.eta[1])
        self.dz = self.eta[2][1] - self.eta[2][0]
        self.iota = float(constants.iotaVal)
        self.R0 = float(constants.R0)

    # -- initial condition ------------------------------------------------------------------
    def init_f(self):
        r, q, z, v = self.eta
        c = self.cd
        feq = advect.f_eq(r[:, None], v[None, :], c)                       # (r, v)
        pert = np.exp(-(r - c["rp"]) ** 2 / c["deltaR"])[:, None, None] * \
            np.cos(c["m"] * q[None, :, None] + c["n"] * z[None, None, :] / c["R0"])
        return feq[:, None, None, :] * (1 + c["eps"] * pert[:, :, :, None])

    # -- flux-surface advection -------------------------------------------------------------
    def flux(self, F, dt):
        r, q, z, v = self.eta
        out = np.empty_like(F)
        for i, ri in enumerate(r):
            for j, vj in enumerate(v):
                out[i, :, :, j], _ = advect.flux_step_ref(F[i, :, :, j], q, self.dz, z[1], vj, ri, dt, self.iota,
                                                          self.R0, self.tint)
        return out

    # -- parallel gradient --------------------------------------------------------------------
    def pargrad(self, Phi, order=6):
        """Phi[r, theta, z] -> gradient[r, z, theta]."""
        r, q, z = self.eta[:3]
        out = np.empty((len(r), len(z), len(q)))
        for i, ri in enumerate(r):
            out[i], _, _ = advect.parallel_gradient_ref(Phi[i].T, q, self.dz, ri, self.iota, self.R0, order, self.tint)
        return out

    # -- v-parallel advection -------------------------------------------------------------------
    def vpar(self, F, grad, dt, mode="fEq"):
        """grad[r, z, theta] advection speeds; F[r, theta, z, v]."""
        r, q, z, v = self.eta
        ref = bspl.Ref(self.spaces[3], self.bs[3])
        A = bspl.collocation(ref, v)
        Ainv = np.linalg.inv(A)
        out = np.empty_like(F)
        self.last_outside = np.zeros(F.shape, dtype=bool)
        vmin, vmax = v[0], v[-1]
        for i, ri in enumerate(r):
            for k in range(len(q)):
                for j in range(len(z)):
                    line = F[i, k, j, :]
                    coeffs = Ainv @ line
                    feet = v - grad[i, j, k] * dt
                    outside = (feet < vmin) | (feet > vmax)
                    res = np.empty_like(line)
                    if (~outside).any():
                        res[~outside] = ref.eval(coeffs, feet[~outside])
                    if mode == "fEq":
                        res[outside] = advect.f_eq(ri, feet[outside], self.cd)
                    else:
                        res[outside] = 0.0
                    out[i, k, j, :] = res
                    self.last_outside[i, k, j, :] = outside
        return out

    # -- poloidal advection ---------------------------------------------------------------------
    def poloidal(self, F, Phi, dt, nul=False, explicit=True):
        """Returns (result, mask of nodes that are NOT within rounding distance of the radial boundary)."""
        r, q, z, v = self.eta
        sref = advect.Spline2DRef(self.spaces[1], self.bs[1], self.spaces[0], self.bs[0])
        out = np.empty_like(F)
        ok = np.ones(F.shape, dtype=bool)
        for j in range(len(z)):
            Cphi = sref.coeffs(Phi[:, :, j].T)
            for i, vi in enumerate(v):
                res, info = advect.poloidal_step_ref(F[:, :, j, i].T, Cphi, sref, q, r, dt, vi, self.cd["B0"], self.cd,
                                                     nul, explicit=explicit)
                out[:, :, j, i] = res.T
                ok[:, :, j, i] = ~info["near"].T
        return out, ok

    # -- density --------------------------------------------------------------------------------
    def quad_weights(self):
        ref = bspl.Ref(self.spaces[3], self.bs[3])
        A = bspl.collocation(ref, self.eta[3])
        return np.linalg.solve(A.T, ref.integrals())

    def rho(self, F, perturbed=True):
        """rho[r, theta, z]."""
        w = self.quad_weights()
        if perturbed:
            feq = advect.f_eq(self.eta[0][:, None], self.eta[3][None, :], self.cd)
            return np.einsum("rqzv,v->rqz", F - feq[:, None, None, :], w)
        return np.einsum("rqzv,v->rqz", F, w)
