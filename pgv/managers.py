"""
managers -- generated LayoutHandler / LayoutSwapper configurations shared by C02, C03, C04, C06.

A configuration is a JSON dict:
  handler: {"kind": "handler", "shape", "nprocs": [..], "layouts": [[name, perm], ...]}
  swapper: {"kind": "swapper", "shape", "groups": [{"nprocs": int|list, "layouts": [[name, perm], ...]}, ...],
            "start": name}
"""
import numpy as np
from hypothesis import strategies as st

from . import gen


class Refused(Exception):
    """The constructor refused the configuration (AssertionError / RuntimeError)."""


def eta_grids(shape):
    # distinct, irregular but increasing coordinate values per dimension
    return [1000.0 * d + np.cumsum(1.0 + 0.25 * ((np.arange(n) * 7 + d) % 3)) for d, n in enumerate(shape)]


def all_layouts(cfg):
    if cfg["kind"] == "handler":
        return [(n, list(p)) for n, p in cfg["layouts"]]
    return [(n, list(p)) for g in cfg["groups"] for n, p in g["layouts"]]


def nranks(cfg):
    if cfg["kind"] == "handler":
        return int(np.prod(cfg["nprocs"]))
    return int(np.prod(cfg["groups"][0]["nprocs"]))


def group_of(cfg, name):
    if cfg["kind"] == "handler":
        return 0
    for k, g in enumerate(cfg["groups"]):
        if any(n == name for n, _ in g["layouts"]):
            return k
    raise KeyError(name)


def group_nprocs(cfg, k):
    if cfg["kind"] == "handler":
        return list(cfg["nprocs"])
    n = cfg["groups"][k]["nprocs"]
    return [n] if isinstance(n, int) else list(n)


def build(comm, cfg):
    """Build the layout manager on this rank; raises Refused for a constructor refusal."""
    from pygyro.model.layout import getLayoutHandler, LayoutSwapper
    eta = eta_grids(cfg["shape"])
    if cfg["kind"] == "handler":
        try:
            return getLayoutHandler(comm, {n: list(p) for n, p in cfg["layouts"]}, list(cfg["nprocs"]), eta)
        except RuntimeError as e:
            if "could not be connected" in str(e):
                raise Refused("RuntimeError: %s" % e)
            raise
    layouts = [{n: list(p) for n, p in g["layouts"]} for g in cfg["groups"]]
    nprocs = [g["nprocs"] if isinstance(g["nprocs"], int) else list(g["nprocs"]) for g in cfg["groups"]]
    try:
        return LayoutSwapper(comm, layouts, nprocs, eta, cfg["start"])
    except RuntimeError as e:
        if "could not be connected" in str(e) or "equal number of layout sets" in str(e):
            raise Refused("RuntimeError: %s" % e)
        raise
    except AssertionError as e:
        raise Refused("AssertionError: %s" % e)


# ----------------------------------------------------------------------------
# strategies
# ----------------------------------------------------------------------------
@st.composite
def handler_config(draw, tier, min_dims=2, max_dims=4, max_extent=9, connected_only=False, max_procs=None,
                   allow_empty=False):
    max_procs = max_procs or (8 if tier == "quick" else 12)
    ndims = draw(st.integers(min_dims, max_dims))
    grids = gen.all_process_grids(max_procs, 1, min(2, ndims))
    both = [g for g in grids if len(g) == 2 and g[0] > 1 and g[1] > 1]
    pick = draw(st.integers(0, 8))
    if ndims >= 3 and pick == 0:
        nprocs = draw(st.sampled_from(gen.all_process_grids(max_procs, 3, 3, max_entry=3)))
    elif ndims >= 3 and both and pick <= 6:
        nprocs = draw(st.sampled_from(both))
    else:
        nprocs = draw(st.sampled_from(grids))
    if connected_only or draw(st.integers(0, 3)) > 0:
        perms = draw(gen.connected_layout_set(ndims, len(nprocs)))
        mode = "connected"
    else:
        perms = draw(gen.arbitrary_layout_set(ndims))
        mode = "arbitrary"
    nm = draw(gen.names(len(perms)))
    mins = gen.min_extents(ndims, nprocs, perms)
    shape = draw(gen.extents(mins, max_extent))
    if allow_empty:
        shape = draw(gen.maybe_short(shape, mins))
    return {"kind": "handler", "shape": shape, "nprocs": nprocs, "mode": mode,
            "layouts": [[n, p] for n, p in zip(nm, perms)]}


@st.composite
def swapper_config(draw, tier, min_dims=3, max_dims=4, max_extent=8, max_procs=None, allow_empty=False):
    max_procs = max_procs or (8 if tier == "quick" else 12)
    ndims = draw(st.integers(min_dims, max_dims))
    grids = gen.all_process_grids(max_procs, 2, 2)
    both = [g for g in grids if g[0] > 1 and g[1] > 1]
    square = [g for g in both if g[0] == g[1]]
    pick = draw(st.integers(0, 9))
    if pick < 5 and both:
        p0, p1 = draw(st.sampled_from(both))
    elif pick < 7 and square:
        p0, p1 = draw(st.sampled_from(square))
    else:
        p0, p1 = draw(st.sampled_from(grids))
    dims = list(range(ndims))
    base = draw(gen.connected_layout_set(ndims, 2, max_layouts=3))
    groups = [{"nprocs": [p0, p1], "layouts": base}]
    ngroups = draw(st.integers(1, 3))
    for _ in range(ngroups):
        choices = ["p0", "p1", "p0l", "p1l", "2d"]
        if p0 != p1:
            choices.append("2dswap")       # a 2-D group listing the process counts in the other order
        if p0 == 1 or p1 == 1:
            choices.append("one")
        ch = draw(st.sampled_from(choices))
        ref = list(base[draw(st.integers(0, len(base) - 1))])
        nl = draw(st.integers(1, 3))
        perms = []
        derived = draw(st.integers(0, 4)) > 0
        for _k in range(nl):
            if ch in ("2d", "2dswap"):
                if not perms:
                    perms = draw(gen.connected_layout_set(ndims, 2, max_layouts=nl))
                break
            if derived:
                lead = ref[0] if ch in ("p0", "p0l") else (ref[1] if ch in ("p1", "p1l") else
                                                           draw(st.sampled_from(dims)))
                rest = [d for d in dims if d != lead]
                rest = list(draw(st.permutations(rest)))
                perm = [lead] + rest
            else:
                perm = list(draw(st.permutations(dims)))
            if perm not in perms:
                perms.append(perm)
        if ch == "p0":
            npg = p0
        elif ch == "p1":
            npg = p1
        elif ch == "p0l":
            npg = [p0]
        elif ch == "p1l":
            npg = [p1]
        elif ch == "2d":
            npg = [p0, p1]
        elif ch == "2dswap":
            npg = [p1, p0]
        else:
            npg = draw(st.sampled_from([1, [1]]))
        groups.append({"nprocs": npg, "layouts": perms})
    total = sum(len(g["layouts"]) for g in groups)
    nm = draw(gen.names(total))
    k = 0
    for g in groups:
        g["layouts"] = [[nm[k + i], p] for i, p in enumerate(g["layouts"])]
        k += len(g["layouts"])
    # optionally do not put the 2-D group first
    if draw(st.integers(0, 5)) == 0 and len(groups) > 1:
        groups = groups[1:] + groups[:1]
    mins = [1] * ndims
    for g in groups:
        npg = [g["nprocs"]] if isinstance(g["nprocs"], int) else list(g["nprocs"])
        m = gen.min_extents(ndims, npg, [p for _, p in g["layouts"]])
        mins = [max(a, b) for a, b in zip(mins, m)]
    real_mins = list(mins)
    mins = [max(m, 2) for m in mins]
    shape = draw(gen.extents(mins, max_extent))
    if allow_empty:
        shape = draw(gen.maybe_short(shape, real_mins, lo=2))
    start = draw(st.sampled_from(nm))
    cfg = {"kind": "swapper", "shape": shape, "groups": groups, "start": start}
    # keep the 2-D group findable: nranks() uses the product of the first group's nprocs
    cfg["P"] = p0 * p1
    return cfg


def nranks_cfg(cfg):
    return int(cfg.get("P") or nranks(cfg))


def uneven(cfg):
    """Some distributed extent is not divisible by its process count."""
    shape = cfg["shape"]
    if cfg["kind"] == "handler":
        gs = [(list(cfg["nprocs"]), [p for _, p in cfg["layouts"]])]
    else:
        gs = [(group_nprocs(cfg, k), [p for _, p in g["layouts"]]) for k, g in enumerate(cfg["groups"])]
    for npg, perms in gs:
        for perm in perms:
            for i, p in enumerate(npg):
                if p > 1 and shape[perm[i]] % p:
                    return True
    return False
