"""Generate /verif/MANIFEST.json from the table below:  python -m pgv.tools.mkmanifest"""
import json
import os

VERIF = os.path.dirname(os.path.dirname(os.path.dirname(os.path.abspath(__file__))))

BASELINE_OFF = ("cd /repo && env -u PYGYRO_VERIF /venv/bin/python -m pytest -ra -q -p no:cacheprovider "
                "--timeout=900 --continue-on-collection-errors --junitxml=/tmp/pgv-baseline.junit.xml")

MPI_NOTE = ("Trusted base: pgv.simmpi (simulated mpi4py: thread-per-rank, baton scheduler, strict collective "
            "matcher) validated by its own closed-form self tests and by upstream's MPI tests run under it; "
            "numpy. Real libmpi / parallel HDF5 behaviour is out of reach in this sandbox (no libmpi).")
NUM_NOTE = "Trusted base: numpy/scipy reference implementations (scipy.interpolate.BSpline, numpy.linalg); tolerances derived as in DESIGN 2.4."

# id -> (technique, level text, design ref, note)
CHECKS = {
    "C01": ("property-based testing (Hypothesis) of real LayoutHandler transposes on a simulated MPI world "
            "against a global-array model",
            "Generated configurations x transposes x schedules, every rank's block compared bit-for-bit with the "
            "model; held-on-everything-explored, not absence.", "3/C01", MPI_NOTE),
    "C02": ("exhaustive enumeration of all 1<=p<=n<=N through the real Layout constructor + Hypothesis "
            "multi-dimensional layouts + Grid accessors on simulated worlds, against pure tiling predicates "
            "and the global-array model",
            "Finite box decided exhaustively (exhaustive:true for that sub-check); beyond it generated search.",
            "3/C02", MPI_NOTE),
    "C03": ("property-based testing (Hypothesis) of LayoutSwapper histories on a simulated MPI world "
            "against a global-array model",
            "Generated swapper configurations x histories x schedules; every step compared bit-for-bit with "
            "the model on every rank; replication factor checked.", "3/C03", MPI_NOTE),
    "C04": ("model-based stateful testing: exhaustive enumeration of all operation histories up to a bound "
            "on fixed configurations + Hypothesis-generated histories, real Grid vs numpy model after every step",
            "Histories up to the stated length are decided exhaustively on three configurations; longer "
            "histories and other configurations by generated search.", "3/C04", MPI_NOTE),
    "C05": ("differential property-based testing (Hypothesis): every grid-level operator, the QN pipeline, a full Strang "
            "step and the real driver on generated process grids vs the serial world (assembled global fields), plus "
            "per-slice operator references at every slice's own global coordinates",
            "Generated configurations x process grids x schedules; decomposition-independence to 1e-12 and agreement "
            "with independent references on the serial world.", "3/C05", MPI_NOTE),
    "C06": ("schedule-exploring property-based testing on a simulated MPI with a strict collective matcher and deadlock "
            "detector: stateless DFS enumeration of arrival orders for <= 3 ranks, generated schedules otherwise, "
            "strict/eager completion, per-rank permuted set iteration, real PYTHONHASHSEED sweep",
            "Generated configurations x schedules; exhaustive over the schedule tree only where the evidence says so; "
            "absence of deadlock only for the simulated semantics.", "3/C06", MPI_NOTE),
    "C07": ("property-based testing (Hypothesis): every evaluation entry point vs scipy.interpolate.BSpline on the "
            "knot vector the path uses (reference cross-checked by an own Cox-de Boor recursion)",
            "Generated spaces x coefficient vectors x boundary-focused points; differential against an independent "
            "evaluator with derived tolerances.", "3/C07", NUM_NOTE),
    "C08": ("property-based testing (Hypothesis): round trip through an independent evaluator, independent dense "
            "collocation solve, polynomial reproduction (metamorphic/exact-solution oracle)",
            "Generated spaces x data incl. badly scaled and complex; condition-aware tolerance.", "3/C08", NUM_NOTE),
    "C09": ("property-based testing (Hypothesis): quadrature weights and basis integrals vs exact Gauss-Legendre "
            "integration of the reference basis and an independent transposed collocation solve",
            "Generated spaces x data; exact-integral oracle.", "3/C09", NUM_NOTE),
    "C10": ("property-based testing (Hypothesis): FluxSurfaceAdvection.step vs an independent implementation of the "
            "stated formula + metamorphic relations (constants, linearity, z-shift, exact circular shift)",
            "Generated grids, radii/velocities, displacements up to many turns, rotational transform; differential + "
            "metamorphic oracles.", "3/C10", NUM_NOTE),
    "C11": ("property-based testing (Hypothesis): VParallelAdvection.step vs independent collocation + scipy evaluation "
            "with the stated boundary rule; gridStep/gridStepKeepGradient on simulated worlds vs a global reference using "
            "the parallel gradient at each line's own global position",
            "Generated v spaces, shifts incl. larger than the domain, three boundary modes; grid level over generated "
            "process grids.", "3/C11", MPI_NOTE + " " + NUM_NOTE),
    "C12": ("property-based testing (Hypothesis): PoloidalAdvection.step vs an independent vectorised Heun / converged "
            "implicit trapezoid, exact solutions (constant phi, rigid rotation), observed order, counted sweeps",
            "Generated potentials/distributions/time steps; nodes within rounding distance of the radial boundary "
            "excluded as the property states; termination only as a bounded claim in the contraction regime.",
            "3/C12", NUM_NOTE),
    "C13": ("property-based testing (Hypothesis): ParallelGradient vs independent field-aligned finite-difference "
            "formula with Lagrange-derivative weights + metamorphic relations + observed convergence order",
            "Generated orders, grids, local radial ranges from real Layouts, potentials.", "3/C13", NUM_NOTE),
    "C14": ("property-based testing (Hypothesis): DiffEqSolver vs an independent dense Galerkin assembly with the same "
            "Gauss rule, manufactured polynomial solutions, linearity, mode independence, refusal of pure-Neumann problems",
            "Generated coefficient functions, boundary-condition sets, right-hand sides, 1-3 ranks; condition-aware "
            "tolerance.", "3/C14", MPI_NOTE + " " + NUM_NOTE),
    "C15": ("property-based testing (Hypothesis): the driver's QN pipeline on simulated worlds vs numpy.fft + dense "
            "Galerkin reference per mode; FFT round trip; eps=0 fixed point of a complete Strang step",
            "Generated grids (even/odd theta), densities, chi, electron model, process grids.", "3/C15",
            MPI_NOTE + " " + NUM_NOTE),
    "C16": ("property-based testing (Hypothesis): density kernels vs exact integration of the interpolant (collocation + "
            "Gauss-Legendre reference), analytic polynomial integrals; DensityFinder on simulated worlds vs a global "
            "reference using each point's own global radius",
            "Generated v spaces, distributions, storage types, process grids.", "3/C16", MPI_NOTE + " " + NUM_NOTE),
    "C17": ("property-based testing (Hypothesis): local diagnostics summed over simulated ranks vs serial quadrature of "
            "the assembled global field (non-uniform r,v), analytic volume, min/max vs global field for all argument "
            "shapes, DiagnosticCollector slots under generated reduction orders",
            "Generated grids, layouts incl. replicated ones, process grids, roots, reduction orders.", "3/C17", MPI_NOTE),
    "C18": ("property-based testing (Hypothesis): bit-exact checkpoint round trips across process counts through an "
            "mpio-emulating h5py front, latest-file selection over generated time sets, grammar-generated constants files "
            "vs plain-Python evaluation, and differential driver histories run(N)+restart(M) vs run(N+M)",
            "Generated layouts, process counts at save/load, checkpoint time sets, constants files, save intervals and "
            "restart points.", "3/C18", MPI_NOTE + " pgv.simh5 emulates the mpio driver (h5py here has no MPI support)."),
    "C19": ("differential fuzzing of every exported kernel: interpreted modules vs the pyccel build of a scratch copy of "
            "the working tree (separate interpreter), and vs the numba/pythran source copies run as Python behind stubs; "
            "function sets compared by name",
            "Generated call batches incl. boundary branches; return values and all array arguments after the call "
            "compared; the documented build must succeed.", "3/C19",
            "Trusted base: pyccel 2.0.1 + gfortran/gcc as installed; numba and pythran are absent, so their copies are "
            "checked as Python sources only (stated in DESIGN 4)."),
    "C20": ("exhaustive enumeration of a finite box + Hypothesis far beyond it, brute-force divisor oracle, "
            "line-event budget for termination",
            "All triples of the box are decided (exhaustive:true for that sub-check); termination as a "
            "bounded claim (line budget).", "3/C20",
            "Trusted base: brute-force divisor enumeration (5 lines), sys.settrace line counting; simulated MPI "
            "for the transposes on the chosen grid."),
}

NOT_YET = {}


def build():
    with open(os.path.join(VERIF, "properties.jsonl")) as f:
        ids = [json.loads(l)["id"] for l in f if l.strip()]
    checks = []
    na = []
    for pid in ids:
        if pid in CHECKS:
            tech, text, ref, note = CHECKS[pid]
            checks.append({
                "property_id": pid,
                "quick_cmd": "/venv/bin/python -m pgv.run %s --tier quick" % pid,
                "thorough_cmd": "/venv/bin/python -m pgv.run %s --tier thorough" % pid,
                "evidence_file": "/verif/evidence/%s.json" % pid,
                "replay_cmd_template": "/venv/bin/python -m pgv.run %s --replay {path}" % pid,
                "engine": "pgv",
                "level_claimed": {"category": "exploration", "text": text, "design_ref": "DESIGN.md section " + ref},
                "level_note": note,
                "technique": tech,
            })
        else:
            na.append({"property_id": pid,
                       "reason": NOT_YET.get(pid, "check not built yet in this round (planned: DESIGN.md section 3); "
                                                  "not claimed until its check exists and is quiet on the unchanged tree")})
    man = {
        "version": 1,
        "setup_cmd": "/venv/bin/python -m pgv.bootstrap --setup",
        "hooks": {
            "guard": "PYGYRO_VERIF",
            "enable": "no source hook exists: the harness injects the simulated mpi4py and the mpio-emulating "
                      "h5py front through sys.modules / module attributes before importing pygyro from /repo",
            "baseline_off_cmd": BASELINE_OFF,
            "source_commits": [],
            "add_only": True,
        },
        "engines": [
            {"name": "pgv", "path": "/verif/pgv",
             "serves_properties": sorted(CHECKS),
             "kind_free_text": "Hypothesis property-based testing + exhaustive enumeration of finite boxes, "
                                "simulated MPI (pgv.simmpi) with generated schedules, independent numpy/scipy oracles"},
        ],
        "checks": checks,
        "not_applicable": na,
        "notes": "All checks: exit 0 held / 1 VIOLATION lines / 2 harness error. VERIF_SEED seeds every generator. "
                 "Fixes of genuine defects are recorded in /verif/known_findings.json.",
    }
    with open(os.path.join(VERIF, "MANIFEST.json"), "w") as f:
        json.dump(man, f, indent=1)
    return man


if __name__ == "__main__":
    m = build()
    print("claimed:", [c["property_id"] for c in m["checks"]])
    try:
        import jsonschema
        with open("/root/.vp/MANIFEST.schema.json") as f:
            jsonschema.validate(m, json.load(f))
        print("schema ok")
    except ImportError:
        print("(jsonschema not available here)")
