"""Validate MANIFEST.json and evidence/*.json against the schemas (run with python3-vt: needs jsonschema)."""
import glob
import json
import os
import sys

import jsonschema

VERIF = os.path.dirname(os.path.dirname(os.path.dirname(os.path.abspath(__file__))))


def main():
    bad = 0
    with open("/root/.vp/MANIFEST.schema.json") as f:
        ms = json.load(f)
    with open("/root/.vp/EVIDENCE.schema.json") as f:
        es = json.load(f)
    with open(os.path.join(VERIF, "MANIFEST.json")) as f:
        man = json.load(f)
    jsonschema.validate(man, ms)
    print("MANIFEST ok (%d checks, %d not_applicable)" % (len(man["checks"]), len(man.get("not_applicable", []))))
    for c in man["checks"]:
        p = c["evidence_file"]
        if not os.path.exists(p):
            print("MISSING", p)
            bad += 1
            continue
        with open(p) as f:
            ev = json.load(f)
        try:
            jsonschema.validate(ev, es)
            cov = ev["coverage"]
            print("%s ok tier=%s evals=%d nontrivial=%d wall=%.0fs violations=%s" % (
                ev["property_id"], ev["tier"], cov["evaluations"], cov["distinct_nontrivial"], ev["wall_s"],
                ev.get("violations")))
        except jsonschema.ValidationError as e:
            print("INVALID", p, e.message)
            bad += 1
    return 1 if bad else 0


if __name__ == "__main__":
    sys.exit(main())
