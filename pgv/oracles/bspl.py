"""
B-spline reference (DESIGN 2.3): scipy.interpolate.BSpline on the knot vector the path really
uses, a textbook Cox-de Boor recursion written for the harness as a cross-check, exact integrals,
and an independent dense collocation solve.

A *space* is described by a JSON dict
    {"degree": p, "periodic": bool, "uniform": bool (flag passed to BSplines), "breaks": [floats]}
"""
import numpy as np
from scipy.interpolate import BSpline

EPS = np.finfo(float).eps


# ----------------------------------------------------------------------------------------
# building the real objects
# ----------------------------------------------------------------------------------------
def make_basis(space):
    from pygyro.splines.splines import make_knots, BSplines
    breaks = np.array(space["breaks"], dtype=float)
    knots = make_knots(breaks, int(space["degree"]), bool(space["periodic"]))
    return BSplines(knots, int(space["degree"]), bool(space["periodic"]), bool(space["uniform"]))


def is_cu(space):
    return int(space["degree"]) == 3 and bool(space["uniform"])


def my_knots(space):
    """Clamped / periodically extended knot vector, built independently of pygyro.make_knots."""
    b = np.array(space["breaks"], dtype=float)
    p = int(space["degree"])
    if space["periodic"]:
        period = b[-1] - b[0]
        left = b[-p - 1:-1] - period
        right = b[1:p + 1] + period
    else:
        left = np.full(p, b[0])
        right = np.full(p, b[-1])
    return np.concatenate([left, b, right])


class Ref:
    """Reference evaluator for the coefficient layout of one pygyro BSplines object."""

    def __init__(self, space, basis=None):
        self.space = space
        self.p = int(space["degree"])
        b = np.array(space["breaks"], dtype=float)
        self.a, self.b = b[0], b[-1]
        self.ncells = len(b) - 1
        self.ncoef = self.ncells + self.p
        self.cu = is_cu(space)
        if self.cu:
            # what the fast path uses: xmin, dx as stored by the basis, cardinal knots in (x-xmin)/dx
            if basis is not None:
                self.xmin, self.xmax, self.dx, _ = [float(v) for v in basis.knots]
            else:
                k = my_knots(space)
                self.xmin, self.xmax, self.dx = k[3], k[-4], k[4] - k[3]
            self.t = np.arange(-3, self.ncells + 4, dtype=float)
            self.min_span = self.dx
        else:
            self.t = my_knots(space)
            self.min_span = float(np.min(np.diff(b)))

    def _u(self, x):
        x = np.asarray(x, dtype=float)
        if self.cu:
            u = (x - self.xmin) / self.dx
            return np.clip(u, 0.0, float(self.ncells))
        # general path: a point a rounding error outside [a,b] (Greville points are rounded to 15 decimals)
        # is evaluated with the polynomial piece of the end cell, as the code does
        return x

    def basis_matrix(self, x, der=0):
        """(len(x), ncoef) matrix of (derivatives of) all basis functions at x."""
        u = np.atleast_1d(self._u(x))
        m = BSpline(self.t, np.eye(self.ncoef), self.p, extrapolate=True)(u, nu=der)
        if self.cu and der:
            m = m / self.dx ** der
        return m

    def eval(self, coeffs, x, der=0):
        return self.basis_matrix(x, der) @ np.asarray(coeffs)

    def left_derivative(self, coeffs, x):
        """One-sided derivative from the left (only needed for degree 1 at breakpoints)."""
        b = np.array(self.space["breaks"], dtype=float)
        x = np.atleast_1d(np.asarray(x, dtype=float))
        idx = np.clip(np.searchsorted(b, x, side="left") - 1, 0, self.ncells - 1)
        mid = 0.5 * (b[idx] + b[idx + 1])
        return self.eval(coeffs, mid, 1)

    def tol(self, coeffs, der=0):
        s = float(np.sum(np.abs(coeffs))) + 1e-300
        t = 64.0 * (self.p + 1) * EPS * s
        if der:
            t *= (self.p + 1) / self.min_span
        return t

    # ---- exact integrals over [a, b] of every stored basis function -------------------------
    def integrals(self):
        """
        Exact integral over [a, b] of every stored basis function: Gauss-Legendre of sufficient order on
        every cell (piecewise polynomials of degree p are integrated exactly by p//2+1 points).
        (scipy's BSpline.integrate goes through FITPACK, which is limited to degree 5.)
        """
        xq, wq = np.polynomial.legendre.leggauss(self.p // 2 + 1)
        if self.cu:
            cells = np.arange(0, self.ncells + 1, dtype=float)
        else:
            cells = np.array(self.space["breaks"], dtype=float)
        mid = 0.5 * (cells[1:] + cells[:-1])
        half = 0.5 * (cells[1:] - cells[:-1])
        pts = (mid[:, None] + half[:, None] * xq[None, :]).ravel()
        wts = (half[:, None] * wq[None, :]).ravel()
        m = BSpline(self.t, np.eye(self.ncoef), self.p, extrapolate=False)(pts)
        out = wts @ m
        if self.cu:
            out = out * self.dx
        return out

    def folded_integrals(self):
        """Periodic: integral over the period of the j-th *periodic* basis function, j < ncells."""
        it = self.integrals()
        n = self.ncells
        f = it[:n].copy()
        f[:self.p] += it[n:]
        return f


# ----------------------------------------------------------------------------------------
# textbook Cox-de Boor (cross-check of the scipy reference)
# ----------------------------------------------------------------------------------------
def cox_de_boor(t, p, j, x):
    """Value of B_{j,p}(x) on knots t, right-continuous, last interval closed."""
    if p == 0:
        last = np.max(np.nonzero(t[:-1] < t[1:])[0])
        if t[j] <= x < t[j + 1] or (j == last and x == t[j + 1]):
            return 1.0
        return 0.0
    v = 0.0
    if t[j + p] > t[j]:
        v += (x - t[j]) / (t[j + p] - t[j]) * cox_de_boor(t, p - 1, j, x)
    if t[j + p + 1] > t[j + 1]:
        v += (t[j + p + 1] - x) / (t[j + p + 1] - t[j + 1]) * cox_de_boor(t, p - 1, j + 1, x)
    return v


def cox_matrix(t, p, n, xs):
    # restrict "last interval closed" to the base interval [t[p], t[n]]
    tb = np.asarray(t, dtype=float)
    out = np.zeros((len(xs), n))
    for i, x in enumerate(xs):
        if x >= tb[n]:
            x = tb[n]
            # evaluate by continuity from the left cell
            span = n - 1
            while tb[span] == tb[span + 1]:
                span -= 1
            out[i] = _basis_at_span(tb, p, n, x, span)
        else:
            for j in range(n):
                out[i, j] = cox_de_boor(tb, p, j, x)
    return out


def _basis_at_span(t, p, n, x, span):
    """All basis functions at x using the polynomial pieces of cell `span` (de Boor triangle)."""
    N = np.zeros(n + p + 1)
    N[span] = 1.0
    for k in range(1, p + 1):
        M = np.zeros_like(N)
        for j in range(span - k, span + 1):
            v = 0.0
            if j >= 0 and t[j + k] > t[j]:
                v += (x - t[j]) / (t[j + k] - t[j]) * N[j]
            if t[j + k + 1] > t[j + 1]:
                v += (t[j + k + 1] - x) / (t[j + k + 1] - t[j + 1]) * N[j + 1]
            if j >= 0:
                M[j] = v
        N = M
    return N[:n]


# ----------------------------------------------------------------------------------------
# collocation reference (own dense matrix; periodic columns folded)
# ----------------------------------------------------------------------------------------
def collocation(ref, pts):
    """Dense matrix A with A[i, j] = value at pts[i] of the j-th (periodic-folded) basis function."""
    m = ref.basis_matrix(pts, 0)
    if ref.space["periodic"]:
        n = ref.ncells
        a = m[:, :n].copy()
        a[:, :ref.p] += m[:, n:]
        return a
    return m


def interpolate(ref, pts, data):
    """Coefficients (full length ncoef, periodic wrapped) of the interpolant; also cond(A)."""
    A = collocation(ref, pts)
    cond = np.linalg.cond(A)
    c = np.linalg.solve(A, np.asarray(data))
    if ref.space["periodic"]:
        c = np.concatenate([c, c[:ref.p]])
    return c, cond, A
