"""
Global-array model (DESIGN 2.3): one numpy array G with an injective encoding of the global
index; the expected block of a rank in a layout is G.transpose(dims_order)[starts:ends].
"""
import numpy as np

DTYPES = {"float64": np.float64, "complex128": np.complex128, "int64": np.int64}


def sentinel(dtype):
    dt = np.dtype(DTYPES.get(dtype, dtype))
    if dt.kind == "c":
        return -777.25 - 3.5j
    if dt.kind == "f":
        return -777.25
    return -7


def global_array(shape, dtype="float64", pattern=0):
    """Injective code of the global index (pattern k shifts the code so patterns differ)."""
    dt = np.dtype(DTYPES.get(dtype, dtype))
    n = int(np.prod(shape))
    lin = np.arange(1, n + 1, dtype=np.int64) + int(pattern) * (n + 3)
    if dt.kind == "c":
        g = lin.astype(np.float64) + 1j * (0.5 - 3.0 * lin.astype(np.float64))
    elif dt.kind == "f":
        g = lin.astype(np.float64) + 0.25
    else:
        g = lin
    return g.astype(dt).reshape(shape)


def block(G, dims_order, starts, ends):
    sl = tuple(slice(int(s), int(e)) for s, e in zip(starts, ends))
    return G.transpose(dims_order)[sl]


def bits_equal(a, b):
    """Bit-for-bit equality of two arrays of the same dtype and shape."""
    a = np.ascontiguousarray(a)
    b = np.ascontiguousarray(b)
    if a.shape != b.shape or a.dtype != b.dtype:
        return False
    return a.tobytes() == b.tobytes()


def check_tiling(full_shape, blocks):
    """
    blocks: list of (starts, ends) (one per rank, layout order).  Every index of the array of
    shape full_shape must be owned by exactly `mult` ranks, the same for all indices.
    Returns (ok, multiplicity or message).
    """
    cnt = np.zeros(full_shape, dtype=np.int64)
    for s, e in blocks:
        sl = tuple(slice(int(a), int(b)) for a, b in zip(s, e))
        cnt[sl] += 1
    mn, mx = int(cnt.min()), int(cnt.max())
    if mn != mx or mn < 1:
        return False, "ownership count ranges from %d to %d" % (mn, mx)
    return True, mn
