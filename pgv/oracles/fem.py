"""
Dense FEM reference (DESIGN 2.3): independent Galerkin assembly of

    int( -A phi' psi' r - A phi' psi + B phi' psi r + C phi psi r - m^2 D phi psi r ) dr = int( E rho psi r ) dr

on a clamped spline space with Gauss-Legendre quadrature (degree//2+1 points per cell), Dirichlet rows/columns
removed per mode, numpy.linalg.solve.
"""
import numpy as np

from . import bspl


# ----------------------------------------------------------------------------------------
# coefficient functions described by JSON
# ----------------------------------------------------------------------------------------
def make_func(desc, a=0.0, b=1.0):
    """Returns a numpy-vectorised callable r -> value for a JSON descriptor."""
    kind = desc["kind"]
    if kind == "const":
        v = float(desc["v"])
        return lambda r: v + 0.0 * np.asarray(r, dtype=float)
    if kind == "poly":                       # polynomial in s = (r-a)/(b-a)
        c = [float(x) for x in desc["c"]]
        return lambda r: np.polynomial.polynomial.polyval((np.asarray(r, dtype=float) - a) / (b - a), c)
    if kind == "inv":
        v = float(desc["v"])
        return lambda r: v / np.asarray(r, dtype=float)
    if kind == "inv2":
        v = float(desc["v"])
        return lambda r: v / np.asarray(r, dtype=float) ** 2
    if kind == "tanh":
        v, w, r0 = float(desc["v"]), float(desc["w"]), float(desc["r0"])
        return lambda r: v * np.exp(-w * np.tanh((np.asarray(r, dtype=float) - r0)))
    raise ValueError(kind)


def scalar_func(desc, a=0.0, b=1.0):
    """Plain-Python scalar version handed to the code under test (it np.vectorizes its arguments)."""
    f = make_func(desc, a, b)
    return lambda r: float(f(r))


class DenseFEM:
    def __init__(self, space, basis, quad_degree, A, B, C, D, E):
        """space/basis: clamped radial spline space (general path); A..E: vectorised callables."""
        self.ref = bspl.Ref(dict(space, uniform=False), None)
        self.nb = self.ref.ncoef
        br = np.array(space["breaks"], dtype=float)
        n = quad_degree // 2 + 1
        xq, wq = np.polynomial.legendre.leggauss(n)
        mid = 0.5 * (br[1:] + br[:-1])
        half = 0.5 * (br[1:] - br[:-1])
        self.pts = (mid[:, None] + half[:, None] * xq[None, :]).ravel()
        self.wts = (half[:, None] * wq[None, :]).ravel()
        r = self.pts
        B0 = self.ref.basis_matrix(r, 0)          # (nq, nb)
        B1 = self.ref.basis_matrix(r, 1)
        w = self.wts
        Av, Bv, Cv, Dv, Ev = A(r), B(r), C(r), D(r), E(r)
        # rows: test function psi_i, columns: trial function phi_j
        self.K0 = (np.einsum("q,qi,qj->ij", w * (-Av) * r, B1, B1) + np.einsum("q,qi,qj->ij", w * (-Av), B0, B1)
                   + np.einsum("q,qi,qj->ij", w * Bv * r, B0, B1) + np.einsum("q,qi,qj->ij", w * Cv * r, B0, B0))
        self.KD = np.einsum("q,qi,qj->ij", w * Dv * r, B0, B0)
        self.M = np.einsum("q,qi,qj->ij", w * Ev * r, B0, B0)
        self.B0 = B0
        self.C_is_null = bool(np.all(Cv == 0))

    def rows(self, l_neumann, u_neumann):
        lo = 0 if l_neumann else 1
        hi = self.nb - (0 if u_neumann else 1)
        return slice(lo, hi)

    def solve_coeffs(self, rhs_vec, m2, l_neumann, u_neumann, K0=None):
        sl = self.rows(l_neumann, u_neumann)
        K = (self.K0 if K0 is None else K0) - m2 * self.KD
        Ks = K[sl, sl]
        cond = np.linalg.cond(Ks)
        if not np.isfinite(cond) or cond > 1e15:
            return np.full(self.nb, np.nan, dtype=complex), np.inf
        x = np.linalg.solve(Ks, rhs_vec[sl])
        c = np.zeros(self.nb, dtype=complex)
        c[sl] = x
        return c, cond

    def solve_discrete(self, rho_vals, rpts, m2, l_neumann, u_neumann, K0=None):
        """rho_vals at the interpolation points rpts (complex); returns (phi at rpts, cond)."""
        A = bspl.collocation(self.ref, rpts)
        crho = np.linalg.solve(A, rho_vals)
        c, cond = self.solve_coeffs(self.M @ crho, m2, l_neumann, u_neumann, K0)
        return self.ref.basis_matrix(rpts) @ c, max(cond, np.linalg.cond(A))

    def solve_function(self, rho_func, rpts, m2, l_neumann, u_neumann):
        r = self.pts
        vec = np.einsum("q,qi->i", self.wts * r * rho_func(r), self.B0)
        c, cond = self.solve_coeffs(vec, m2, l_neumann, u_neumann)
        return self.ref.basis_matrix(rpts) @ c, cond
