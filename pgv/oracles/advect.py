"""
Operator references (DESIGN 2.3): vectorised numpy implementations of the *stated formulas* of the
advection operators, built on the independent B-spline / collocation reference.
"""
import numpy as np

from . import bspl

EPS = np.finfo(float).eps
TWO_PI = 2 * np.pi


# ----------------------------------------------------------------------------------------
# equilibrium (own formulas)
# ----------------------------------------------------------------------------------------
def n0(r, c):
    return c["CN0"] * np.exp(-c["kN0"] * c["deltaRN0"] * np.tanh((r - c["rp"]) / c["deltaRN0"]))


def Ti(r, c):
    return c["CTi"] * np.exp(-c["kTi"] * c["deltaRTi"] * np.tanh((r - c["rp"]) / c["deltaRTi"]))


def Te(r, c):
    return c["CTe"] * np.exp(-c["kTe"] * c["deltaRTe"] * np.tanh((r - c["rp"]) / c["deltaRTe"]))


def f_eq(r, v, c):
    t = Ti(r, c)
    return n0(r, c) * np.exp(-0.5 * v * v / t) / np.sqrt(2 * np.pi * t)


def n0deriv_normalised(r, c):
    return -c["kN0"] * (1 - np.tanh((r - c["rp"]) / c["deltaRN0"]) ** 2)


def const_dict(constants):
    keys = ["CN0", "kN0", "deltaRN0", "rp", "CTi", "kTi", "deltaRTi", "CTe", "kTe", "deltaRTe", "B0", "R0",
            "iotaVal", "m", "n", "eps", "deltaR"]
    return {k: getattr(constants, k) for k in keys}


def b_z(r, iota, R0):
    return 1.0 / np.sqrt(1.0 + (r * iota / R0) ** 2)


# ----------------------------------------------------------------------------------------
# periodic theta interpolation helper
# ----------------------------------------------------------------------------------------
class ThetaInterp:
    """Interpolant S of nodal values at the theta grid points, through the independent reference."""

    def __init__(self, space, basis, pts):
        self.ref = bspl.Ref(space, basis)
        self.pts = np.asarray(pts, dtype=float)
        self.A = bspl.collocation(self.ref, self.pts)
        self.cond = np.linalg.cond(self.A)
        self.Ainv = np.linalg.inv(self.A)
        self.p = self.ref.p

    def coeffs(self, vals):
        """vals: (..., ntheta) -> coefficients (..., ncoef) with periodic wrap."""
        c = vals @ self.Ainv.T
        return np.concatenate([c, c[..., :self.p]], axis=-1)

    def eval_matrix(self, x):
        """Matrix E with S(x_i) = E[i] . nodal values."""
        B = self.ref.basis_matrix(np.mod(x, TWO_PI))
        n = self.ref.ncells
        Bf = B[:, :n].copy()
        Bf[:, :self.p] += B[:, n:]
        return Bf @ self.Ainv


def lagrange_weights(t, nodes):
    """Lagrange basis on integer `nodes` evaluated at t."""
    w = np.ones(len(nodes))
    for j, xj in enumerate(nodes):
        for m, xm in enumerate(nodes):
            if m != j:
                w[j] *= (t - xm) / (xj - xm)
    return w


def flux_step_ref(f, theta, dz, z1, v, r, dt, iota, R0, tint, npts_lag=6):
    """
    f: (ntheta, nz).  Returns f_new with
      f_new(theta_q, z_i) = sum_k l_k(zeta) S_{i+s_k}(theta_q + iota dz s_k / R0),
      zeta = -v b_z(r) dt,  s_k = floor(zeta/dz) + (-2..3).
    """
    ntheta, nz = f.shape
    bz = b_z(r, iota, R0)
    zeta = -v * bz * dt
    base = np.floor(zeta / dz)
    offs = np.arange(-npts_lag // 2 + 1, npts_lag // 2 + 1)
    shifts = (base + offs).astype(int)
    zPts = z1 + dz * shifts
    zPos = z1 + zeta
    # Lagrange weights of the foot on the stencil nodes (own formula, exact delta on a node)
    w = np.ones(npts_lag)
    on = (zPts == zPos)
    if on.any():
        w = on.astype(float)
    else:
        for j in range(npts_lag):
            for m in range(npts_lag):
                if m != j:
                    w[j] *= (zPos - zPts[m]) / (zPts[j] - zPts[m])
    dtheta = dz * iota / R0
    out = np.zeros_like(f)
    for j, s in enumerate(shifts):
        E = tint.eval_matrix(theta + dtheta * s)          # (ntheta, ntheta)
        src = np.roll(f, -s, axis=1)                      # column i holds f[:, i+s]
        out += w[j] * (E @ src)
    return out, {"zeta_cells": float(zeta / dz), "weights": w, "shifts": shifts}


# ----------------------------------------------------------------------------------------
# parallel gradient
# ----------------------------------------------------------------------------------------
def fd_stencil(order):
    """Integer stencil used for a first derivative of the requested order: -floor(order/2) + (0..order)."""
    return np.arange(order + 1) - (order // 2)


def fd_weights(nodes):
    """First-derivative weights at 0 on integer nodes: derivative of the Lagrange basis (own formula)."""
    nodes = [float(x) for x in nodes]
    w = []
    for j, xj in enumerate(nodes):
        tot = 0.0
        for m, xm in enumerate(nodes):
            if m == j:
                continue
            term = 1.0 / (xj - xm)
            for k, xk in enumerate(nodes):
                if k != j and k != m:
                    term *= (0.0 - xk) / (xj - xk)
            tot += term
        w.append(tot)
    return np.array(w)


def parallel_gradient_ref(phi, theta, dz, r, iota, R0, order, tint):
    """
    phi: (nz, ntheta).  (grad_par phi)(z_k, theta_j) = b_z(r)/dz sum_l w_l S_{k+l}(theta_j + iota dz l / R0).
    """
    nz = phi.shape[0]
    st = fd_stencil(order)
    w = fd_weights(st)
    out = np.zeros_like(phi)
    for l, wl in zip(st, w):
        E = tint.eval_matrix(theta + iota * dz * l / R0)
        out += wl * (np.roll(phi, -int(l), axis=0) @ E.T)
    return out * (b_z(r, iota, R0) / dz), st, w


# ----------------------------------------------------------------------------------------
# v-parallel advection
# ----------------------------------------------------------------------------------------
def vpar_step_ref(f, vpts, c, dt, r, mode, ref, consts):
    """
    f_new[i] = S(v_i - c dt) inside [vMin, vMax] (closed); outside: f_eq(r, foot) / 0 / periodic image.
    ref: bspl.Ref of the v space; returns (f_new, info).
    """
    coeffs, cond, A = bspl.interpolate(ref, vpts, f)
    feet = vpts - c * dt
    vmin, vmax = vpts[0], vpts[-1]
    out = np.empty_like(f)
    outside = (feet < vmin) | (feet > vmax)
    if mode == "periodic":
        width = vmax - vmin
        img = feet.copy()
        for i in range(len(img)):
            v = img[i]
            while v < vmin:
                v += width
            while v > vmax:
                v -= width
            img[i] = v
        out[:] = ref.eval(coeffs, img)
        foot_used = img
    else:
        inside = ~outside
        foot_used = feet
        if inside.any():
            out[inside] = ref.eval(coeffs, feet[inside])
        if mode == "fEq":
            out[outside] = f_eq(r, feet[outside], consts)
        elif mode == "null":
            out[outside] = 0.0
        else:
            raise ValueError(mode)
    smax = float(np.abs(coeffs).max()) * 2 * (ref.p + 1) / ref.min_span     # bound of |S'|
    return out, {"cond": cond, "outside": outside, "feet": feet, "foot_used": foot_used, "slope_bound": smax,
                 "coeffs": coeffs}


# ----------------------------------------------------------------------------------------
# poloidal advection
# ----------------------------------------------------------------------------------------
class Spline2DRef:
    """Tensor-product reference on (theta periodic, r clamped) or any pair of spaces."""

    def __init__(self, s1, b1, s2, b2):
        self.r1, self.r2 = bspl.Ref(s1, b1), bspl.Ref(s2, b2)
        self.s1, self.s2 = s1, s2
        self.g1 = np.asarray(b1.greville, dtype=float)
        self.g2 = np.asarray(b2.greville, dtype=float)
        self.A1 = bspl.collocation(self.r1, self.g1)
        self.A2 = bspl.collocation(self.r2, self.g2)
        self.cond = np.linalg.cond(self.A1) * np.linalg.cond(self.A2)

    def coeffs(self, V):
        C = np.linalg.solve(self.A1, np.linalg.solve(self.A2, V.T).T)
        if self.s2["periodic"]:
            C = np.concatenate([C, C[:, :self.r2.p]], axis=1)
        if self.s1["periodic"]:
            C = np.concatenate([C, C[:self.r1.p, :]], axis=0)
        return C

    def pairs(self, C, x1, x2, d1=0, d2=0):
        B1 = self.r1.basis_matrix(np.ravel(x1), d1)
        B2 = self.r2.basis_matrix(np.ravel(x2), d2)
        return np.einsum("nk,kl,nl->n", B1, C, B2).reshape(np.shape(x1))

    def grid(self, C, x1, x2, d1=0, d2=0):
        return self.r1.basis_matrix(x1, d1) @ C @ self.r2.basis_matrix(x2, d2).T

    def grad_bound(self, C):
        m = float(np.abs(C).max())
        return (m * 2 * (self.r1.p + 1) / self.r1.min_span, m * 2 * (self.r2.p + 1) / self.r2.min_span)


def poloidal_velocity(sref, Cphi, q, r, B0, rmin, rmax):
    """(theta_dot, r_dot) = (-d_r phi, d_theta phi)/(r B0); zero where r is outside [rmin, rmax]."""
    q = np.mod(q, TWO_PI)
    inside = ~((r < rmin) | (r > rmax))
    rr = np.where(inside, r, rmin)
    drp = sref.pairs(Cphi, q, rr, 0, 1) / rr
    dqp = sref.pairs(Cphi, q, rr, 1, 0) / rr
    return np.where(inside, -drp / B0, 0.0), np.where(inside, dqp / B0, 0.0), inside


def poloidal_step_ref(f, Cphi, sref, theta, rpts, dt, v, B0, consts, nul, explicit=True, tol=1e-10, max_iter=100000):
    """
    f: (ntheta, nr).  Heun (explicit) or converged implicit trapezoid with clipping; see DESIGN C12.
    Returns (f_new, info).
    """
    rmin, rmax = rpts[0], rpts[-1]
    Q, R = np.meshgrid(theta, rpts, indexing="ij")
    a0q, a0r, _ = poloidal_velocity(sref, Cphi, Q, R, B0, rmin, rmax)
    k1q = np.mod(Q + dt * a0q, TWO_PI)
    k1r = R + dt * a0r
    sweeps = 1
    if explicit:
        aq, ar, in1 = poloidal_velocity(sref, Cphi, k1q, k1r, B0, rmin, rmax)
        k2q = np.mod(Q + 0.5 * dt * (a0q + aq), TWO_PI)
        k2r = R + 0.5 * dt * (a0r + ar)
        pred_r = k1r
    else:
        xq, xr = k1q, k1r
        conv = tol * 1e-3
        pred_r = k1r
        best, stall = np.inf, 0
        sweeps_tol = None
        for sweeps in range(1, max_iter + 1):
            aq, ar, _ = poloidal_velocity(sref, Cphi, xq, xr, B0, rmin, rmax)
            nq = np.mod(Q + 0.5 * dt * (a0q + aq), TWO_PI)
            nr = np.clip(R + 0.5 * dt * (a0r + ar), rmin, rmax)
            dq = np.abs(nq - xq)
            dq = np.where(dq > np.pi, TWO_PI - dq, dq)
            nrm = max(dq.max(), np.abs(nr - xr).max())
            xq, xr = nq, nr
            if sweeps_tol is None and nrm <= tol:
                sweeps_tol = sweeps               # the sweep at which an iteration stopping at `tol` itself would end
            if nrm <= conv:
                break
            # the requested tightness may lie below the rounding noise of the iterates: stop once the update has not
            # shrunk for a while (the fixed point is then resolved as far as double precision allows)
            if nrm < 0.9 * best:
                best, stall = nrm, 0
            else:
                stall += 1
                if stall >= 12:
                    break
        k2q, k2r = xq, xr
    Cf = sref.coeffs(f)
    below = k2r < rmin
    above = k2r > rmax
    inside = ~(below | above)
    out = np.empty_like(f)
    out[inside] = sref.pairs(Cf, np.mod(k2q[inside], TWO_PI), k2r[inside])
    if nul:
        out[~inside] = 0.0
    else:
        out[below] = f_eq(rmin, v, consts)
        out[above] = f_eq(k2r[above], v, consts)
    delta = 1e-9 * (rmax - rmin)
    near = (np.abs(k2r - rmin) < delta) | (np.abs(k2r - rmax) < delta)
    if explicit:
        near |= (np.abs(pred_r - rmin) < delta) | (np.abs(pred_r - rmax) < delta)
    else:
        # the first guess decides whether its velocity is used or zeroed
        near |= (np.abs(pred_r - rmin) < delta) | (np.abs(pred_r - rmax) < delta)
    return out, {"k2q": k2q, "k2r": k2r, "k1r": pred_r, "near": near, "inside": inside, "below": below, "above": above,
                 "Cf": Cf, "sweeps": sweeps, "a0": (a0q, a0r),
                 "sweeps_tol": (sweeps_tol if not explicit else None)}
