"""
Self tests of the simulated MPI against closed-form expectations (DESIGN 2.1 "fidelity (i)").
Run:  python -m pgv.selftest.test_simmpi        (exit 0 = all passed)
"""
import sys

import numpy as np

from .. import simmpi
from ..simmpi import core as MPI


def t_object_collectives():
    def fn(ctx):
        c = ctx.comm
        r = c.Get_rank()
        out = {}
        out["bcast"] = c.bcast({"a": r} if r == 2 else None, root=2)
        out["gather"] = c.gather(r * r, root=1)
        out["reduce"] = c.reduce(r + 1, op=MPI.SUM, root=0)
        out["min"] = c.reduce(float(r) - 1.5, op=MPI.MIN, root=3)
        out["max"] = c.allreduce(r, op=MPI.MAX)
        out["land"] = c.allreduce(r < 3, op=MPI.LAND)
        out["allgather"] = c.allgather(chr(65 + r))
        c.Barrier()
        return out
    for eager in (False, True):
        for sched in ([], [3, 1, 2, 0, 1, 1, 2], [1] * 30):
            res = simmpi.World(4, schedule=sched, eager=eager, reduce_seed=len(sched)).run(fn)
            for r, o in enumerate(res):
                assert o["bcast"] == {"a": 2}
                assert o["gather"] == ([0, 1, 4, 9] if r == 1 else None)
                assert o["reduce"] == (10 if r == 0 else None)
                assert o["min"] == (-1.5 if r == 3 else None)
                assert o["max"] == 3 and o["land"] is False
                assert o["allgather"] == ["A", "B", "C", "D"]


def t_buffer_collectives():
    def fn(ctx):
        c = ctx.comm
        r, n = c.Get_rank(), c.Get_size()
        send = np.arange(n * 2, dtype=float) + 100 * r
        recv = np.full(n * 2, -1.0)
        c.Alltoall(send, recv)
        exp = np.concatenate([np.arange(2 * r, 2 * r + 2) + 100.0 * k for k in range(n)])
        assert (recv == exp).all(), (recv, exp)
        # Allgather with an explicit DOUBLE type on complex data (as the swapper does)
        z = np.array([r + 1j * r, 2 * r - 1j], dtype=complex)
        out = np.empty(2 * n, dtype=complex)
        c.Allgather((z, MPI.DOUBLE), (out, MPI.DOUBLE))
        assert (out == np.concatenate([[k + 1j * k, 2 * k - 1j] for k in range(n)])).all()
        # Reduce
        a = np.array([r, -r, 1.0])
        b = np.zeros(3)
        c.Reduce(a, b, op=MPI.SUM, root=1)
        if r == 1:
            assert (b == [n * (n - 1) / 2, -n * (n - 1) / 2, n]).all()
        else:
            assert (b == 0).all()
        m = np.zeros(3)
        c.Reduce(a, m, op=MPI.MAX, root=0)
        if r == 0:
            assert (m == [n - 1, 0, 1]).all()
        # Gatherv with uneven (and one empty) contributions
        mine = np.arange(r, dtype=float) + 10 * r
        sizes = c.gather(mine.size, root=2)
        if r == 2:
            starts = np.zeros(n, int)
            starts[1:] = np.cumsum(sizes[:-1])
            got = np.empty(sum(sizes))
            c.Gatherv(mine, (got, sizes, starts, MPI.DOUBLE), 2)
            assert (got == np.concatenate([np.arange(k) + 10.0 * k for k in range(n)])).all()
        else:
            c.Gatherv(mine, mine, 2)
        x = np.array([float(r)])
        c.Bcast(x, root=3)
        assert x[0] == 3.0
        return True
    for eager in (False, True):
        assert all(simmpi.World(4, schedule=[2, 0, 3, 1] * 5, eager=eager).run(fn))


def t_cart():
    def fn(ctx):
        c = ctx.comm
        cart = c.Create_cart([2, 3], periods=[False, False])
        co = cart.Get_coords(c.Get_rank())
        assert co == [c.Get_rank() // 3, c.Get_rank() % 3]
        s0 = cart.Sub([True, False])
        s1 = cart.Sub([False, True])
        assert s0.Get_size() == 2 and s1.Get_size() == 3
        assert s0.Get_rank() == co[0] and s1.Get_rank() == co[1]
        assert s0 is not s1 and (s0 != s1) and (s0 in [s0, s1]) and (s1 not in [s0])
        col = s0.allgather(c.Get_rank())
        row = s1.allgather(c.Get_rank())
        assert col == [co[1], co[1] + 3] and row == [3 * co[0], 3 * co[0] + 1, 3 * co[0] + 2]
        sp = c.Split(c.Get_rank() == 4, c.Get_rank())
        if c.Get_rank() == 4:
            assert sp.Get_size() == 1
        else:
            assert sp.Get_size() == 5 and sp.allgather(c.Get_rank()) == [0, 1, 2, 3, 5]
        return True
    assert all(simmpi.World(6, schedule=[5, 4, 3, 2, 1, 0] * 4).run(fn))


def t_deadlock_and_mismatch():
    def skip_one(ctx):
        if ctx.rank != 1:
            ctx.comm.Barrier()
    try:
        simmpi.World(3).run(skip_one)
        raise AssertionError("deadlock not detected")
    except simmpi.Deadlock as e:
        assert sorted(e.pending) == [0, 2] and e.finished == [1]

    def diff_ops(ctx):
        if ctx.rank == 0:
            ctx.comm.bcast(1, root=0)
        else:
            ctx.comm.gather(1, root=0)
    try:
        simmpi.World(2).run(diff_ops)
        raise AssertionError("mismatch not detected")
    except simmpi.CollectiveMismatch:
        pass

    def diff_roots(ctx):
        ctx.comm.reduce(1, root=ctx.rank % 2)
    try:
        simmpi.World(2).run(diff_roots)
        raise AssertionError
    except simmpi.CollectiveMismatch:
        pass

    def diff_counts(ctx):
        n = 4 if ctx.rank == 0 else 6
        ctx.comm.Alltoall(np.zeros(n), np.zeros(n))
    try:
        simmpi.World(2).run(diff_counts)
        raise AssertionError
    except simmpi.CollectiveMismatch:
        pass

    def one_raises(ctx):
        if ctx.rank == 0:
            raise KeyError("x")
        ctx.comm.Barrier()
    try:
        simmpi.World(2).run(one_raises)
        raise AssertionError
    except simmpi.RankFailure as e:
        assert list(e.excs) == [0] and list(e.blocked) == [1] and not e.unanimous()

    def all_raise(ctx):
        raise AssertionError("refused")
    w = simmpi.World(3)
    try:
        w.run(all_raise)
        raise RuntimeError
    except simmpi.RankFailure as e:
        assert e.unanimous(AssertionError)
    assert not w.broken and w.run(lambda ctx: ctx.rank) == [0, 1, 2]

    def eager_leftover(ctx):
        # root leaves an eager bcast that nobody else joins
        if ctx.rank == 0:
            ctx.comm.bcast(1, root=0)
    try:
        simmpi.World(2, eager=True).run(eager_leftover)
        raise AssertionError
    except simmpi.CollectiveMismatch:
        pass

    def noncontig(ctx):
        a = np.zeros((4, 4))
        ctx.comm.Alltoall(a[:, 0], np.zeros(4))
    try:
        simmpi.World(2).run(noncontig)
        raise AssertionError
    except simmpi.RankFailure as e:
        assert e.unanimous(ValueError)


def t_schedules():
    order = []

    def fn(ctx):
        order.append(("a", ctx.rank))
        ctx.comm.Barrier()
        order.append(("b", ctx.rank))

    seen = set()

    def run(s):
        del order[:]
        w = simmpi.World(3, schedule=s, fallback="first")
        w.run(fn)
        seen.add(tuple(order))
        return w.decisions
    n, done = simmpi.enumerate_schedules(run, 100000)
    assert done and len(seen) == 36 and n == 36, (n, done, len(seen))
    # persistence of state between runs
    w = simmpi.World(2)
    w.run(lambda ctx: ctx.state.setdefault("x", ctx.rank + 5))
    assert w.run(lambda ctx: ctx.state["x"]) == [5, 6]
    # serial fallback outside any world
    assert MPI.COMM_WORLD.Get_size() == 1 and MPI.COMM_WORLD.bcast(7, root=0) == 7
    assert MPI.COMM_WORLD.reduce(2.5, op=MPI.MIN, root=0) == 2.5


def main():
    tests = [t_object_collectives, t_buffer_collectives, t_cart, t_deadlock_and_mismatch, t_schedules]
    for t in tests:
        t()
        print("ok", t.__name__)
    return 0


if __name__ == "__main__":
    sys.exit(main())
