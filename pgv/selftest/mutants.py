"""
Catalogue of planted faults (DESIGN section 6).  Each entry replaces `old` by `new` once in `file`
of a scratch copy of the working tree.  expect = "caught" (the owning check's quick tier must fail)
or "quiet" (a property-preserving change: the check must stay green).
"""

L = "pygyro/model/layout.py"
G = "pygyro/model/grid.py"
PG = "pygyro/model/process_grid.py"
NU = "pygyro/splines/spline_eval_funcs.py"
CU = "pygyro/splines/cubic_uniform_spline_eval_funcs.py"
SP = "pygyro/splines/splines.py"
SI = "pygyro/splines/spline_interpolators.py"
ADV = "pygyro/advection/advection.py"
ACC = "pygyro/advection/accelerated_advection_steps.py"
PS = "pygyro/poisson/poisson_solver.py"
PT = "pygyro/poisson/poisson_tools.py"
NORMS = "pygyro/diagnostics/norms.py"
EN = "pygyro/diagnostics/energy.py"
DC = "pygyro/diagnostics/diagnostic_collector.py"
ST = "pygyro/utilities/savingTools.py"
SETUPS = "pygyro/initialisation/setups.py"
CONST = "pygyro/initialisation/constants.py"
INI = "pygyro/initialisation/initialiser.py"
FS = "fullSimulation.py"

MUTANTS = [
    # ---------------------------------------------------------------- C01
    {"id": "c01-unpack-dest-starts", "property": "C01", "file": L,
     "old": "                destRanges[axis[2]] = slice(layout_source.mpi_starts(axis[0])[r],\n"
            "                                            layout_source.mpi_starts(axis[0])[r]+layout_source.mpi_lengths(axis[0])[r])",
     "new": "                destRanges[axis[2]] = slice(layout_dest.mpi_starts(axis[0])[r],\n"
            "                                            layout_dest.mpi_starts(axis[0])[r]+layout_source.mpi_lengths(axis[0])[r])"},
    {"id": "c01-drop-parity-copy", "property": "C01", "file": L,
     "old": "        # Ensure the result is found in the expected place\n        if (nSteps % 2 == 0):\n            dest[:] = source\n\n    def _transposeRedirect_source_intact(self, source, dest, buf, source_name, dest_name):\n        \"\"\"\n        Function for changing layout via multiple steps.\n        \"\"\"\n        # Get route from one layout to another\n        steps = self._route_map[source_name][dest_name]\n        nSteps = len(steps)\n\n        # warn about multiple steps\n        warnings.warn(\"Changing from {0} layout to {1} layout requires {2} steps\"\n                      .format(source_name, dest_name, nSteps))\n\n        # take the first step to move the data\n        nowLayoutKey = steps[0]\n        nowLayout",
     "new": "        # Ensure the result is found in the expected place\n        if (nSteps % 2 == 0):\n            pass\n\n    def _transposeRedirect_source_intact(self, source, dest, buf, source_name, dest_name):\n        \"\"\"\n        Function for changing layout via multiple steps.\n        \"\"\"\n        # Get route from one layout to another\n        steps = self._route_map[source_name][dest_name]\n        nSteps = len(steps)\n\n        # warn about multiple steps\n        warnings.warn(\"Changing from {0} layout to {1} layout requires {2} steps\"\n                      .format(source_name, dest_name, nSteps))\n\n        # take the first step to move the data\n        nowLayoutKey = steps[0]\n        nowLayout"},
    {"id": "c01-flip-parity-intact", "property": "C01", "file": L,
     "old": "        # The first step needs to place the data in such a way that the\n        # final result will be stored in the destination\n        if (nSteps % 2 == 0):\n            self._transpose_source_intact(",
     "new": "        # The first step needs to place the data in such a way that the\n        # final result will be stored in the destination\n        if (nSteps % 2 == 1):\n            self._transpose_source_intact("},
    {"id": "c01-intact-uses-source-as-scratch", "property": "C01", "file": L,
     "old": "        self._rearrange_from_buffer(\n            dest, buf, layout_source, layout_dest, axis, comm)",
     "new": "        self._rearrange_from_buffer(\n            dest, source, layout_source, layout_dest, axis, comm)"},
    {"id": "c01-even-branch-condition", "property": "C01", "file": L,
     "old": "        if (layout_dest.shape[axis[2]] % mpi_size == 0 and layout_source.shape[axis[1]] % mpi_size == 0):",
     "new": "        if (layout_dest.shape[axis[2]] % mpi_size == 0):"},
    {"id": "c01-buffer-size-no-comm-factor", "property": "C01,C02", "file": L,
     "old": "                            buffsize = np.prod(blockshape) * \\\n                                self._subcomms[axis[0]].Get_size()",
     "new": "                            buffsize = np.prod(blockshape)"},
    # ---------------------------------------------------------------- C02
    {"id": "c02-balance-formula", "property": "C02", "file": L,
     "old": "            starts = small_size*ranks+nBig*ranks//nRanks",
     "new": "            starts = small_size*ranks+np.minimum(ranks, nBig)\n            big_size = big_size if nBig > 1 or nRanks < 3 else big_size+0"},
    {"id": "c02-max-shape-always-big", "property": "C02", "file": L,
     "old": "            self._max_shape[i] = big_size if nBig > 0 else small_size",
     "new": "            self._max_shape[i] = big_size"},
    {"id": "c02-global-indices-no-dims-order", "property": "C02", "file": G,
     "old": "            result[self._layout.dims_order[i]] = indices[i]+toAdd",
     "new": "            result[i] = indices[i]+toAdd"},
    {"id": "c02-starts-off-by-one-last", "property": "C02,C01", "file": L,
     "old": "            starts = small_size*ranks+nBig*ranks//nRanks",
     "new": "            starts = small_size*ranks+(nBig*ranks+nRanks-1)//nRanks",
     "expect": "quiet"},   # ceil instead of floor: still an exact balanced partition
    {"id": "c02-partition-gap", "property": "C02", "file": L,
     "old": "            starts = small_size*ranks+nBig*ranks//nRanks",
     "new": "            starts = small_size*ranks+nBig*ranks//(nRanks+1)"},
    {"id": "c02-unbalanced", "property": "C02", "file": L,
     "old": "            starts = small_size*ranks+nBig*ranks//nRanks",
     "new": "            starts = small_size*ranks+nBig*(ranks > 0)\n            big_size = small_size+nBig"},
    {"id": "c02-geteta-revert", "property": "C02", "file": G,
     "old": "            self._layout.starts[self._layout.inv_dims_order[i]]:\n            self._layout.ends[self._layout.inv_dims_order[i]]])",
     "new": "            self._layout.starts[self._layout.dims_order[i]]:\n            self._layout.ends[self._layout.dims_order[i]]])"},
    # ---------------------------------------------------------------- C03
    {"id": "c03-drop-copy-after-gather", "property": "C03", "file": L,
     "old": "            # The data now resides on the wrong memory chunk and must be copied\n            dest[:] = source[:]",
     "new": "            # The data now resides on the wrong memory chunk and must be copied\n            pass"},
    {"id": "c03-scatter-wrong-rank-start", "property": "C03", "file": L,
     "old": "            start = layout_dest.mpi_starts(idx_d)[rank]\n            length = layout_dest.mpi_lengths(idx_d)[rank]\n\n            sourceSlice = [slice(n) for n in layout_source.shape]\n            sourceSlice[idx_s] = slice(start, start+length)\n\n            transposition = [layout_source.dims_order.index(\n                i) for i in layout_dest.dims_order]\n\n            # Copy the relevant information\n            destView[:] = np.transpose(\n                sourceView[tuple(sourceSlice)], transposition)\n\n        else:",
     "new": "            start = layout_dest.mpi_starts(idx_d)[0]\n            length = layout_dest.mpi_lengths(idx_d)[rank]\n\n            sourceSlice = [slice(n) for n in layout_source.shape]\n            sourceSlice[idx_s] = slice(start, start+length)\n\n            transposition = [layout_source.dims_order.index(\n                i) for i in layout_dest.dims_order]\n\n            # Copy the relevant information\n            destView[:] = np.transpose(\n                sourceView[tuple(sourceSlice)], transposition)\n\n        else:"},
    {"id": "c03-gather-unpack-max-length", "property": "C03", "file": L,
     "old": "                blockShape[idx_s] = layout_source.mpi_lengths(idx_s)[i]\n                blockSize = np.prod(blockShape)\n\n                # Find the relevant data\n                slices[idx_d] = slice(layout_source.mpi_starts(idx_s)[i],\n                                      layout_source.mpi_starts(idx_s)[i]+layout_source.mpi_lengths(idx_s)[i])\n\n                block = np.split(b, [blockSize])[0].reshape(blockShape)\n\n                # Copy the block into the correct part of the memory\n                destView[tuple(slices)] = np.transpose(block, transposition)\n\n            # The data now resides",
     "new": "                blockShape[idx_s] = layout_source.mpi_lengths(idx_s)[i]\n                blockSize = np.prod(blockShape)\n\n                # Find the relevant data\n                slices[idx_d] = slice(layout_source.mpi_starts(idx_s)[i],\n                                      layout_source.mpi_starts(idx_s)[i]+layout_source.mpi_lengths(idx_s)[i])\n\n                block = np.split(b, [blockSize])[0].reshape(blockShape)[::1]\n\n                # Copy the block into the correct part of the memory\n                destView[tuple(slices)] = np.transpose(block, transposition) if i == 0 else np.transpose(block, transposition)*1\n\n            # The data now resides",
     "expect": "quiet"},
    {"id": "c03-compat-ignores-dims", "property": "C03", "file": L,
     "old": "                return all([c in comms1 and (c.Get_size() == 1 or\n                                             dims1[comms1.index(c)] == dims2[j])\n                            for j, c in enumerate(handler2.communicators)])",
     "new": "                return all([c in comms1 for c in handler2.communicators])"},
    # ---------------------------------------------------------------- C04
    {"id": "c04-save-used-as-scratch-while-held", "property": "C04", "file": G,
     "old": "        if (self.hasSaveMemory and self.notSaved):\n            self._layout_manager.transpose(",
     "new": "        if (self.hasSaveMemory):\n            self._layout_manager.transpose("},
    {"id": "c04-restore-keeps-layout", "property": "C04", "file": G,
     "old": "        self._current_layout_name = self._savedLayout\n",
     "new": "        self._savedLayout = self._savedLayout\n"},
    {"id": "c04-free-does-not-reset", "property": "C04", "file": G,
     "old": "        assert not self.notSaved\n        self.notSaved = True\n\n    def restoreGridValues",
     "new": "        assert not self.notSaved\n        self.notSaved = self.notSaved\n\n    def restoreGridValues"},
    {"id": "c04-double-save-accepted", "property": "C04", "file": G,
     "old": "        assert self.hasSaveMemory\n        assert self.notSaved\n\n        self._my_data[self._saveIdx]",
     "new": "        assert self.hasSaveMemory\n\n        self._my_data[self._saveIdx]"},
    {"id": "c04-save-copies-buffer-prefix-only", "property": "C04", "file": G,
     "old": "        self._my_data[self._saveIdx][:self._layout.size] = self._f[:].flatten()",
     "new": "        n = max(self._layout.size - self._layout.shape[-1], 1)\n        self._my_data[self._saveIdx][:n] = self._f[:].flatten()[:n]"},
    # ---------------------------------------------------------------- C20
    {"id": "c20-stop-test-ge", "property": "C20", "file": PG,
     "old": "        if (new_n1 > min(mpi_size, max_proc1)):\n            break",
     "new": "        if (new_n1 >= min(mpi_size, max_proc1)):\n            break", "expect": "quiet"},
    {"id": "c20-inner-search-le", "property": "C20", "file": PG,
     "old": "        while (new_n1 < max_proc1 and mpi_size % new_n1 != 0):",
     "new": "        while (new_n1 <= max_proc1 and mpi_size % new_n1 != 0):", "expect": "quiet"},
    {"id": "c20-no-break-on-non-improvement", "property": "C20", "file": PG,
     "old": "                # if the ratio isn't better then the current setup is optimal\n                break",
     "new": "                # if the ratio isn't better then the current setup is optimal\n                nprocs1 = nprocs1"},
    {"id": "c20-first-loop-lt", "property": "C20", "file": PG,
     "old": "        while (nprocs1 <= min(mpi_size, max_proc1) and mpi_size % nprocs1 != 0):",
     "new": "        while (nprocs1 < min(mpi_size, max_proc1) and mpi_size % nprocs1 != 0):"},
    {"id": "c20-error-threshold", "property": "C20", "file": PG,
     "old": "        if (nprocs1 > min(mpi_size, max_proc1)):\n            raise RuntimeError(",
     "new": "        if (nprocs1 >= min(mpi_size, max_proc1)):\n            raise RuntimeError("},
    {"id": "c20-max2-uses-npts1", "property": "C20", "file": PG,
     "old": "    max_proc2 = min(npts[2], npts[3])",
     "new": "    max_proc2 = min(npts[1], npts[3])"},
    # ---------------------------------------------------------------- C05 (reverts of fixed defects + others)
    {"id": "c05-flux-ignores-ridx", "property": "C05", "file": ADV,
     "old": "                self.step(grid.get2DSlice(i, j), j, i)", "new": "                self.step(grid.get2DSlice(i, j), j)"},
    {"id": "c05-vpar-local-z", "property": "C05", "file": ADV,
     "old": "                        i, j, k), dt, parGradVals[i, zStart+j, k], r)\n\n    def gridStepKeepGradient",
     "new": "                        i, j, k), dt, parGradVals[i, j, k], r)\n\n    def gridStepKeepGradient"},
    {"id": "c05-init-poloidal-swaps-args", "property": "C05", "file": INI,
     "old": "            init_f_pol(PoloidalSurface, r, theta, z, v,", "new": "            init_f_pol(PoloidalSurface, r, theta, v, z,"},
    {"id": "c05-polsplines-global-index", "property": "C05", "file": ADV,
     "old": "                np.real(phi.get2DSlice(j)), self._phiSplines[j])\n        # Do step\n        for i, v in grid.getCoords(0):\n            for j, _ in grid.getCoords(1):  # z\n                self.step(grid.get2DSlice(i, j), dt, self._phiSplines[j], v)\n\n    def gridStep_SplinesUnchanged",
     "new": "                np.real(phi.get2DSlice(j)), self._phiSplines[j])\n        # Do step\n        for i, v in grid.getCoords(0):\n            for j, _ in grid.getCoords(1):  # z\n                self.step(grid.get2DSlice(i, j), dt, self._phiSplines[grid.getGlobalIdxVals(1)[j]], v)\n\n    def gridStep_SplinesUnchanged"},
    {"id": "c05-density-local-feq", "property": "C05,C16", "file": PS,
     "old": "            rho.getAllData(), self._fEq[rIndices], grid.getAllData(), self._quad_coeffs)",
     "new": "            rho.getAllData(), self._fEq[:len(rIndices)], grid.getAllData(), self._quad_coeffs)"},
    {"id": "c05-qn-local-mode-index", "property": "C05,C15", "file": PS,
     "old": "            if (self._mVals[I] == 0):\n                stiffnessMatrix = self._stiffness0",
     "new": "            if (self._mVals[i] == 0):\n                stiffnessMatrix = self._stiffness0"},
    # ---------------------------------------------------------------- C07
    {"id": "c07-find-span-gt", "property": "C07", "file": NU,
     "old": "    elif x >= knots[high]:\n        returnVal = high-1",
     "new": "    elif x > knots[high]:\n        returnVal = high-1"},
    {"id": "c07-der-wrong-knot-difference", "property": "C07", "file": NU,
     "old": "        saved = degree * values[j] / (knots[span+j+1]-knots[span+j+1-degree])",
     "new": "        saved = degree * values[j] / (knots[span+j+1]-knots[span+j-degree])"},
    {"id": "c07-cu-der-sign", "property": "C07", "file": CU,
     "old": "    ders[2] = coeff * (1+2*o-3*o*o)",
     "new": "    ders[2] = coeff * (1+2*o+3*o*o)"},
    {"id": "c07-cu-xmax-span", "property": "C07", "file": CU,
     "old": "    if span == ncells:\n        return span+2, 1.0",
     "new": "    if span == ncells:\n        return span+3, 1.0"},
    {"id": "c07-2d-scalar-ders-swapped", "property": "C07", "file": NU,
     "old": "    if (der1 == 0):\n        nu_basis_funs(kts1, deg1, x, span1, basis1)\n    elif (der1 == 1):\n        nu_basis_funs_1st_der(kts1, deg1, x, span1, basis1)\n    if (der2 == 0):",
     "new": "    if (der2 == 0):\n        nu_basis_funs(kts1, deg1, x, span1, basis1)\n    elif (der2 == 1):\n        nu_basis_funs_1st_der(kts1, deg1, x, span1, basis1)\n    if (der2 == 0):"},
    {"id": "c07-cu-cross-der10-uses-dy", "property": "C07", "file": CU,
     "old": "    elif (der1 == 1 and der2 == 0):\n        for i, x in enumerate(X):\n            span1, offset1 = cu_find_span(xmin, xmax, dx, x, ncells_x)\n            cu_basis_funs_1st_der(span1, offset1, dx, basis1)",
     "new": "    elif (der1 == 1 and der2 == 0):\n        for i, x in enumerate(X):\n            span1, offset1 = cu_find_span(xmin, xmax, dx, x, ncells_x)\n            cu_basis_funs_1st_der(span1, offset1, dy, basis1)"},
    {"id": "c07-getitem-no-wrap", "property": "C07", "file": SP,
     "old": "            spl.coeffs[n:n+p] = spl.coeffs[0:p]\n        return spl",
     "new": "            spl.coeffs[n:n+p] = spl.coeffs[1:p+1]\n        return spl"},
    {"id": "c07-binary-search-refactor", "property": "C07", "file": NU,
     "old": "        span = (low+high)//2\n\n        while x < knots[span] or x >= knots[span+1]:",
     "new": "        span = low + (high-low)//2\n\n        while x < knots[span] or x >= knots[span+1]:",
     "expect": "quiet"},
]
