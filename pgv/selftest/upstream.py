"""
Run upstream's own MPI tests inside simulated worlds (DESIGN 2.1 "fidelity (ii)").

    python -m pgv.selftest.upstream [--sizes 1,4,6] [--modules m1,m2] [-k substr]

Every rank imports the test module and calls the same test functions in the same order
(pytest.mark.parametrize is expanded by hand).  A test passes if it returns on every rank.
"""
import argparse
import importlib
import inspect
import itertools
import os
import shutil
import sys
import tempfile
import time
import warnings

from .. import bootstrap

MODULES = [
    "pygyro.model.test_layout",
    "pygyro.model.test_grid",
    "pygyro.diagnostics.test_norms",
    "pygyro.diagnostics.test_energy",
    "pygyro.initialisation.test_setup",
    "pygyro.utilities.test_saveTools",
    "pygyro.poisson.test_poisson_solver",
    "pygyro.advection.test_advection",
]


def expand(fn):
    """List of kwargs dicts from pytest.mark.parametrize marks."""
    marks = [m for m in getattr(fn, "pytestmark", []) if m.name == "parametrize"]
    sets = []
    for m in marks:
        names, values = m.args[0], m.args[1]
        if isinstance(names, str):
            names = [n.strip() for n in names.split(",")]
        vals = []
        for v in values:
            if hasattr(v, "values"):      # pytest.param
                v = v.values
            if len(names) == 1 and not (isinstance(v, (tuple, list)) and len(v) == 1 and False):
                vals.append({names[0]: v})
            else:
                vals.append(dict(zip(names, v)))
        sets.append(vals)
    if not sets:
        return [{}]
    out = []
    for combo in itertools.product(*sets):
        d = {}
        for c in combo:
            d.update(c)
        out.append(d)
    return out


class _MetaFunc:
    """Just enough of pytest's metafunc for upstream conftest.pytest_generate_tests hooks."""

    class _Cfg:
        @staticmethod
        def getoption(name):
            return True

    config = _Cfg()

    def __init__(self, fn):
        self.fixturenames = list(inspect.signature(fn).parameters)
        self.sets = []

    def parametrize(self, names, values):
        if isinstance(names, str):
            names = [n.strip() for n in names.split(",")]
        self.sets.append([{names[0]: v} if len(names) == 1 else dict(zip(names, v)) for v in values])


def expand_with_conftest(fn, modname):
    base = expand(fn)
    missing = [p for p, v in inspect.signature(fn).parameters.items()
               if v.default is inspect._empty and not all(p in kw for kw in base)]
    if not missing:
        return base
    try:
        conf = importlib.import_module(modname.rsplit(".", 1)[0] + ".conftest")
        mf = _MetaFunc(fn)
        conf.pytest_generate_tests(mf)
    except Exception:
        return None
    out = []
    for b in base:
        for combo in itertools.product(*mf.sets):
            d = dict(b)
            for c in combo:
                d.update(c)
            out.append(d)
    if any(m not in kw for kw in out for m in missing) or not out:
        return None
    return out


def is_serial(fn):
    return any(m.name == "serial" for m in getattr(fn, "pytestmark", []))


def is_long(fn):
    return any(m.name == "long" for m in getattr(fn, "pytestmark", []))


def main(argv=None):
    ap = argparse.ArgumentParser()
    ap.add_argument("--sizes", default="1,4,6")
    ap.add_argument("--modules", default=",".join(MODULES))
    ap.add_argument("-k", default="")
    ap.add_argument("--long", action="store_true")
    args = ap.parse_args(argv)
    bootstrap.prepare()
    from .. import simmpi, simh5
    warnings.simplefilter("ignore")
    simh5.install()
    sizes = [int(s) for s in args.sizes.split(",")]
    nfail = npass = 0
    cwd0 = os.getcwd()
    for modname in args.modules.split(","):
        try:
            mod = importlib.import_module(modname)
        except Exception as e:  # noqa
            print("IMPORT-FAIL %s: %s: %s" % (modname, type(e).__name__, e))
            nfail += 1
            continue
        tests = [(n, f) for n, f in inspect.getmembers(mod, inspect.isfunction)
                 if n.startswith("test_") and f.__module__ == modname and args.k in n]
        tests.sort(key=lambda nf: nf[1].__code__.co_firstlineno)
        for name, fn in tests:
            if is_long(fn) and not args.long:
                continue
            kws = expand_with_conftest(fn, modname)
            if kws is None:
                print("%-70s skipped (needs pytest fixtures)" % ("%s::%s" % (modname.split('.')[-1], name)))
                continue
            for kw in kws:
                for P in sizes:
                    if P > 1 and is_serial(fn):
                        continue
                    tmp = tempfile.mkdtemp(prefix="pgv-up-")
                    os.chdir(tmp)
                    t0 = time.time()
                    try:
                        w = simmpi.World(P)
                        w.run(lambda ctx: fn(**kw))
                        status = "pass"
                        npass += 1
                    except BaseException as e:  # noqa
                        status = "FAIL %s: %s" % (type(e).__name__, str(e)[:400])
                        nfail += 1
                    finally:
                        os.chdir(cwd0)
                        shutil.rmtree(tmp, ignore_errors=True)
                    print("%-70s P=%d %6.1fs %s" % ("%s::%s%s" % (modname.split('.')[-1], name,
                                                                   kw if kw else ""), P, time.time() - t0, status),
                          flush=True)
    print("upstream-under-simmpi: %d passed, %d failed" % (npass, nfail))
    return 1 if nfail else 0


if __name__ == "__main__":
    sys.exit(main())
