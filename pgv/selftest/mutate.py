"""
Mutation runner (DESIGN section 6): plants each fault of pgv.selftest.mutants.MUTANTS in a scratch copy
of the working tree (VERIF_REPO), runs the owning check's quick tier against it and records whether the
check fails within budget.  Scratch copies live under $TMPDIR and are removed after each mutant.

    python -m pgv.selftest.mutate [--only C07,C01] [--ids m1,m2] [--suite] [--jobs 4] [--seeded]

--suite   additionally run the pinned test suite on each mutant (must still pass: "survives the tests")
--seeded  use the changes under /verif/seeded/<id>/patch.diff instead of the catalogue
"""
import argparse
import json
import os
import shutil
import subprocess
import sys
import tempfile
import time
from concurrent.futures import ThreadPoolExecutor

from .. import bootstrap

SUITE = ["-m", "pytest", "-q", "-p", "no:cacheprovider", "--timeout=900", "--continue-on-collection-errors", "-x"]


def make_copy():
    d = tempfile.mkdtemp(prefix="pgv-mut-")
    dst = os.path.join(d, "repo")
    shutil.copytree("/repo", dst, symlinks=True, ignore=shutil.ignore_patterns(".git", "__pycache__", "*.pyc", "*.so",
                                                                "__pyccel__", "pygyro.egg-info"))
    return d, dst


def run_one(m, suite=False, ncpu=4, seed="1"):
    d, repo = make_copy()
    t0 = time.time()
    res = {"id": m["id"], "property": m["property"], "expect": m.get("expect", "caught")}
    try:
        if "patch" in m:
            r = subprocess.run(["git", "apply", m["patch"]], capture_output=True, text=True, cwd=repo)
            if r.returncode != 0:
                r = subprocess.run(["patch", "-p1", "-i", m["patch"]], capture_output=True, text=True, cwd=repo)
            if r.returncode != 0:
                res["error"] = "patch does not apply: " + (r.stderr or r.stdout)[-300:]
                return res
        else:
            path = os.path.join(repo, m["file"])
            with open(path) as f:
                s = f.read()
            cnt = s.count(m["old"])
            if cnt < 1:
                res["error"] = "pattern not found"
                return res
            s = s.replace(m["old"], m["new"], m.get("count", 1))
            with open(path, "w") as f:
                f.write(s)
        out = os.path.join(d, "out")
        os.makedirs(out)
        env = bootstrap.worker_env({"VERIF_REPO": repo, "PGV_OUT": out, "PGV_NCPU": str(ncpu),
                                    "VERIF_SEED": seed})
        verdicts = {}
        for prop in m["property"].split(","):
            cmd = [bootstrap.PYTHON, "-m", "pgv.run", prop, "--tier", "quick"]
            if m.get("only"):
                cmd += ["--only", m["only"]]
            r = subprocess.run(cmd, cwd=bootstrap.VERIF, env=env, capture_output=True, text=True)
            keys = [l.split("key=")[1].split()[0] for l in r.stdout.splitlines() if l.startswith("violation: key=")]
            verdicts[prop] = {"exit": r.returncode, "keys": keys[:4]}
            if r.returncode == 2:
                verdicts[prop]["tail"] = (r.stdout + r.stderr)[-600:]
        res["checks"] = verdicts
        caught = any(v["exit"] == 1 for v in verdicts.values())
        res["caught"] = caught
        res["ok"] = (caught == (res["expect"] == "caught")) and not any(v["exit"] == 2 for v in verdicts.values())
        if suite:
            env2 = dict(os.environ)
            env2["PYTHONPATH"] = repo
            env2["PYTHONDONTWRITEBYTECODE"] = "1"
            r = subprocess.run([bootstrap.PYTHON] + SUITE, cwd=repo, env=env2, capture_output=True, text=True)
            tail = r.stdout.strip().splitlines()[-1] if r.stdout.strip() else ""
            res["suite"] = tail
            res["suite_passes"] = ("failed" not in tail) and ("passed" in tail)
    finally:
        shutil.rmtree(d, ignore_errors=True)
        res["wall_s"] = round(time.time() - t0, 1)
    return res


def seeded_mutants():
    base = os.path.join(bootstrap.VERIF, "seeded")
    out = []
    if not os.path.isdir(base):
        return out
    for name in sorted(os.listdir(base)):
        meta = os.path.join(base, name, "meta.json")
        patch = os.path.join(base, name, "patch.diff")
        if os.path.exists(meta) and os.path.exists(patch):
            with open(meta) as f:
                mj = json.load(f)
            out.append({"id": "seeded/" + name, "property": mj["property"], "patch": patch,
                        "expect": mj.get("expect", "caught")})
    return out


def main(argv=None):
    ap = argparse.ArgumentParser()
    ap.add_argument("--only", default="")
    ap.add_argument("--ids", default="")
    ap.add_argument("--suite", action="store_true")
    ap.add_argument("--jobs", type=int, default=4)
    ap.add_argument("--seeded", action="store_true")
    ap.add_argument("--out", default="")
    args = ap.parse_args(argv)
    if args.seeded:
        muts = seeded_mutants()
    else:
        from .mutants import MUTANTS
        muts = list(MUTANTS)
    if args.only:
        props = set(args.only.split(","))
        muts = [m for m in muts if props & set(m["property"].split(","))]
    if args.ids:
        ids = set(args.ids.split(","))
        muts = [m for m in muts if m["id"] in ids]
    ncpu = max(2, 16 // max(1, args.jobs))
    results = []
    with ThreadPoolExecutor(max_workers=args.jobs) as ex:
        for r in ex.map(lambda m: run_one(m, args.suite, ncpu), muts):
            results.append(r)
            print("%-44s %-8s expect=%-7s %s %s %s" % (
                r["id"], r["property"], r["expect"],
                "OK  " if r.get("ok") else "MISS" if "error" not in r else "ERR ",
                {k: (v["exit"], v["keys"][:1]) for k, v in r.get("checks", {}).items()},
                r.get("suite", r.get("error", ""))), flush=True)
    bad = [r for r in results if not r.get("ok")]
    print("mutants: %d run, %d as expected, %d not" % (len(results), len(results) - len(bad), len(bad)))
    if args.out:
        with open(args.out, "w") as f:
            json.dump(results, f, indent=1)
    return 1 if bad else 0


if __name__ == "__main__":
    sys.exit(main())
