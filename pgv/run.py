"""
CLI:  /venv/bin/python -m pgv.run C07 --tier quick|thorough [--replay FILE]

exit 0  property held on everything explored (known findings are printed as KNOWN-FINDING lines)
exit 1  violation(s): one line "VIOLATION property=<id> replay=<path>" each
exit 2  harness error / inconclusive (never a violation)
"""
import argparse
import importlib
import json
import os
import shutil
import subprocess
import sys
import tempfile
import time
import traceback

from . import bootstrap

NCPU = int(os.environ.get("PGV_NCPU", "16"))
# PGV_OUT redirects evidence/ and replays/ (used only by the mutation runs of pgv.selftest.mutate)
OUT = os.environ.get("PGV_OUT") or bootstrap.VERIF


def load_known(prop):
    path = os.path.join(bootstrap.VERIF, "known_findings.json")
    if not os.path.exists(path):
        return []
    with open(path) as f:
        data = json.load(f)
    return [e for e in data.get("findings", []) if e.get("property") == prop]


def worker_main(prop, tier, seed, jobjson, out):
    bootstrap.prepare()
    module = importlib.import_module("pgv.checks." + prop.lower())
    from . import harness
    job = json.loads(jobjson)
    known = load_known(prop)
    excluded = [e["key"] for e in known if e.get("status") == "open"]
    if hasattr(module, "init_worker"):
        module.init_worker(tier)
    try:
        res = harness.run_job(module, job, tier, seed, excluded)
    except Exception:
        res = {"job": job, "error": traceback.format_exc()}
    tmp = out + ".tmp"
    with open(tmp, "w") as f:
        json.dump(res, f)
    os.replace(tmp, out)
    return 0


def run_jobs(prop, tier, seed, jobs, workdir, timeout):
    """Run jobs as subprocesses, at most NCPU at a time.  Returns list of result dicts."""
    env = bootstrap.worker_env({"VERIF_SEED": str(seed), "VERIF_TIER": tier})
    if not jobs:
        return []
    pending = list(enumerate(jobs))
    running = []
    results = [None] * len(jobs)
    t_end = time.time() + timeout
    while pending or running:
        while pending and len(running) < NCPU:
            idx, job = pending.pop(0)
            out = os.path.join(workdir, "job%04d.json" % idx)
            log = open(os.path.join(workdir, "job%04d.log" % idx), "w")
            p = subprocess.Popen([bootstrap.PYTHON, "-m", "pgv.run", prop, "--tier", tier,
                                  "--worker", json.dumps(job), "--out", out],
                                 cwd=workdir, env=env, stdout=log, stderr=subprocess.STDOUT)
            running.append((idx, job, p, out, log))
        still = []
        for idx, job, p, out, log in running:
            rc = p.poll()
            if rc is None:
                if time.time() > t_end:
                    p.kill()
                    p.wait()
                    log.close()
                    results[idx] = {"job": job, "error": "timeout (inconclusive)", "timeout": True}
                else:
                    still.append((idx, job, p, out, log))
                continue
            log.close()
            if os.path.exists(out):
                with open(out) as f:
                    results[idx] = json.load(f)
            else:
                with open(log.name) as f:
                    tail = f.read()[-3000:]
                results[idx] = {"job": job, "error": "worker exited %s without result:\n%s" % (rc, tail)}
        running = still
        if running:
            time.sleep(0.05)
    return results


def main(argv=None):
    ap = argparse.ArgumentParser()
    ap.add_argument("prop")
    ap.add_argument("--tier", default=os.environ.get("VERIF_TIER", "quick"),
                    choices=["quick", "thorough"])
    ap.add_argument("--replay", default=None)
    ap.add_argument("--worker", default=None)
    ap.add_argument("--out", default=None)
    ap.add_argument("--only", default=None, help="comma separated sub-check names (debugging)")
    ap.add_argument("--scale", type=float, default=1.0, help="scale example counts (debugging)")
    ap.add_argument("--inproc", action="store_true", help="run jobs in this process (debugging)")
    args = ap.parse_args(argv)
    prop = args.prop.upper()
    try:
        seed = int(os.environ.get("VERIF_SEED", "1"))
    except ValueError:
        seed = 1

    if args.worker:
        return worker_main(prop, args.tier, seed, args.worker, args.out)

    t0 = time.time()
    try:
        bootstrap.ensure_hypothesis()
        bootstrap.prepare()
        module = importlib.import_module("pgv.checks." + prop.lower())
        from . import harness
    except Exception:
        traceback.print_exc()
        print("HARNESS-ERROR property=%s (import)" % prop)
        return 2

    # ---------------------------------------------------------------- replay
    if args.replay:
        with open(args.replay) as f:
            rp = json.load(f)
        if hasattr(module, "init_worker"):
            module.init_worker(args.tier)
        try:
            v = harness.replay_case(module, rp["sub"], rp["case"])
        except Exception:
            traceback.print_exc()
            print("HARNESS-ERROR property=%s (replay)" % prop)
            return 2
        if v is None:
            print("replay: case passes (property holds on this case)")
            return 0
        print("replay: %s" % v)
        print("VIOLATION property=%s replay=%s" % (prop, os.path.abspath(args.replay)))
        return 1

    # ---------------------------------------------------------------- search
    known = load_known(prop)
    jobs = module.jobs(args.tier)
    if args.only:
        only = set(args.only.split(","))
        jobs = [j for j in jobs if j["sub"] in only]
    if args.scale != 1.0:
        for j in jobs:
            if "n" in j:
                j["n"] = max(1, int(j["n"] * args.scale))
    workdir = tempfile.mkdtemp(prefix="pgv-%s-" % prop.lower())
    errors = []
    pre_violations = []
    try:
        if hasattr(module, "prepare_run"):
            # e.g. C19 builds the accelerated kernels in a scratch copy of the working tree
            prep = module.prepare_run(args.tier) or {}
            os.environ.update(prep.get("env", {}))
            pre_violations = list(prep.get("violations", []))
            errors.extend(prep.get("errors", []))
        if args.inproc:
            if hasattr(module, "init_worker"):
                module.init_worker(args.tier)
            excluded = [e["key"] for e in known if e.get("status") == "open"]
            results = []
            for j in jobs:
                try:
                    results.append(harness.run_job(module, j, args.tier, seed, excluded))
                except Exception:
                    results.append({"job": j, "error": traceback.format_exc()})
        else:
            timeout = getattr(module, "TIMEOUT", {}).get(args.tier, 3600 if args.tier == "quick" else 6 * 3600)
            results = run_jobs(prop, args.tier, seed, jobs, workdir, timeout)

        # -------------------------------------------------- known findings / regressions
        if hasattr(module, "init_worker"):
            module.init_worker(args.tier)
        violations = list(pre_violations)
        known_lines = []
        nwit = 0
        for e in known:
            w = e.get("witness")
            if not w:
                continue
            nwit += 1
            try:
                v = harness.replay_case(module, w["sub"], w["case"])
            except Exception:
                errors.append("witness of %s: %s" % (e.get("key"), traceback.format_exc()))
                continue
            if e.get("status") == "open":
                if v is not None and v.key == e["key"]:
                    known_lines.append("KNOWN-FINDING: property=%s %s" % (prop, e.get("what", e["key"])))
                elif v is not None:
                    violations.append({"sub": w["sub"], "key": v.key, "case": w["case"], "failure": v.msg})
                else:
                    print("note: known finding %s no longer reproduces on its witness" % e["key"])
            else:  # fixed: plain regression case, suppresses nothing
                if v is not None:
                    violations.append({"sub": w["sub"], "key": v.key, "case": w["case"],
                                       "failure": "regression of fixed finding: " + v.msg})

        # -------------------------------------------------- committed regression cases
        regdir = os.path.join(bootstrap.VERIF, "regressions", prop)
        nreg = 0
        if os.path.isdir(regdir):
            for fn in sorted(os.listdir(regdir)):
                if not fn.endswith(".json"):
                    continue
                with open(os.path.join(regdir, fn)) as f:
                    rp = json.load(f)
                nreg += 1
                try:
                    v = harness.replay_case(module, rp["sub"], rp["case"])
                except Exception:
                    errors.append("regression %s: %s" % (fn, traceback.format_exc()))
                    continue
                open_keys = {e["key"] for e in known if e.get("status") == "open"}
                if v is not None and v.key not in open_keys:
                    violations.append({"sub": rp["sub"], "key": v.key, "case": rp["case"],
                                       "failure": "regression case %s: %s" % (fn, v.msg)})

        # -------------------------------------------------- merge
        cov = {"evaluations": 0, "distinct_nontrivial": 0, "rule": module.RULE, "samples": [],
               "labels": {}, "per_sub": {}, "excluded_known": 0, "inconclusive": 0,
               "regression_cases_replayed": nreg, "known_finding_witnesses_replayed": nwit}
        nontriv = {}
        exhaustive_subs = []
        for r in results:
            if r is None or "error" in r:
                errors.append("%s: %s" % ((r or {}).get("job"), (r or {}).get("error")))
                continue
            sub = r["job"]["sub"]
            ps = cov["per_sub"].setdefault(sub, {"evaluations": 0, "cases": 0, "nontrivial": 0,
                                                 "wall_s": 0.0, "jobs": 0})
            ps["evaluations"] += r["evaluations"]
            ps["cases"] += r["cases"]
            ps["jobs"] += 1
            ps["wall_s"] = round(ps["wall_s"] + r["wall_s"], 2)
            cov["evaluations"] += r["evaluations"]
            cov["excluded_known"] += r["excluded_known"]
            cov["inconclusive"] += r["inconclusive"]
            for k, c in r["labels"].items():
                key = sub + "/" + k
                cov["labels"][key] = cov["labels"].get(key, 0) + c
            s = nontriv.setdefault(sub, [set(), 0])
            s[0].update(r["nontrivial"])
            s[1] += r["nontrivial_count"]
            if len(cov["samples"]) < 8:
                for smp in r["samples"][:2]:
                    cov["samples"].append({"sub": sub, "case": smp})
            if r.get("exhaustive") and sub not in exhaustive_subs:
                exhaustive_subs.append(sub)
            for v in r["violations"]:
                violations.append(v)
        for sub, (st, cnt) in nontriv.items():
            n = len(st) + cnt
            cov["per_sub"][sub]["nontrivial"] = n
            cov["distinct_nontrivial"] += n
        if not cov["samples"]:
            for r in results:
                if r and "error" not in r:
                    for smp in r.get("trivial_samples", []):
                        cov["samples"].append({"sub": r["job"]["sub"], "case": smp, "trivial": True})
        if exhaustive_subs:
            cov["exhaustive_subchecks"] = exhaustive_subs
            cov["exhaustive"] = (set(exhaustive_subs) == set(cov["per_sub"]))
        if hasattr(module, "coverage_extra"):
            cov.update(module.coverage_extra(args.tier))

        # -------------------------------------------------- violations -> replay files
        seen = set()
        vlines = []
        for v in violations:
            if v["key"] in seen:
                continue
            seen.add(v["key"])
            d = os.path.join(OUT, "replays", prop)
            os.makedirs(d, exist_ok=True)
            path = os.path.join(d, "%s.json" % harness.digest({"k": v["key"], "c": v["case"]}))
            with open(path, "w") as f:
                json.dump({"property": prop, "sub": v["sub"], "key": v["key"], "case": v["case"],
                           "failure": v["failure"], "seed": seed, "tier": args.tier,
                           "first_case": v.get("first_case")}, f, indent=1)
            vlines.append((path, v))

        ev = {
            "property_id": prop, "tier": args.tier, "seed": seed, "level": "exploration",
            "coverage": cov,
            "assumptions": list(getattr(module, "ASSUMPTIONS", [])),
            "wall_s": round(time.time() - t0, 2),
            "violations": len(vlines),
            "known_findings_reported": known_lines,
            "harness_errors": errors[:5],
            "repo": bootstrap.repo_state(),
        }
        os.makedirs(os.path.join(OUT, "evidence"), exist_ok=True)
        evpath = os.path.join(OUT, "evidence", "%s.json" % prop)
        with open(evpath + ".tmp", "w") as f:
            json.dump(ev, f, indent=1, default=str)
        os.replace(evpath + ".tmp", evpath)

        for line in known_lines:
            print(line)
        print("%s tier=%s seed=%d evaluations=%d distinct_nontrivial=%d excluded_known=%d "
              "inconclusive=%d wall=%.1fs" % (prop, args.tier, seed, cov["evaluations"],
                                              cov["distinct_nontrivial"], cov["excluded_known"],
                                              cov["inconclusive"], time.time() - t0))
        for path, v in vlines:
            print("violation: key=%s sub=%s\n  %s" % (v["key"], v["sub"], v["failure"][:600]))
            print("VIOLATION property=%s replay=%s" % (prop, path))
        if vlines:
            return 1
        if errors:
            for e in errors[:5]:
                print("HARNESS-ERROR property=%s %s" % (prop, str(e)[:3000]))
            return 2
        return 0
    finally:
        if hasattr(module, "finish_run"):
            try:
                module.finish_run()
            except Exception:
                traceback.print_exc()
        shutil.rmtree(workdir, ignore_errors=True)


if __name__ == "__main__":
    sys.exit(main())
