"""
C10 -- Flux-surface advection is a field-aligned shift along z.
"""
import math

import numpy as np
from hypothesis import strategies as st

from .. import gen
from ..harness import Sub, Violation, Inconclusive, crash_is_violation, run_world, interpreted_kernels
from ..oracles import bspl, advect

PROPERTY = "C10"
HANG_SECONDS = 400.0
LINE_BUDGET = 5000000000
RULE = ("Hypothesis-generated cases: ntheta 4-12 (periodic theta splines of degree 1-5 on the general path or the "
        "uniform-cubic path), nz 6-14, several radii and velocities of either sign (so step(f, vIdx, rIdx) indexing "
        "is exercised), dt of either sign with displacements from a fraction of a cell to many turns of the z domain, "
        "rotational transform 0 / +-0.8 / generated, f = generated low modes + seeded noise.  Oracle = independent "
        "implementation of the stated formula (degree-5 Lagrange on the stencil floor(zeta/dz)+(-2..3) of the "
        "periodic theta-interpolant evaluated along the field line) + metamorphic relations: constants preserved, "
        "linearity, commutation with np.roll along z, exact circular shift when iota=0 and the displacement is an "
        "exactly representable whole number of cells.  Non-trivial = non-constant f with |zeta|>dz or zeta<0, or "
        "iota != 0; distinct = distinct case digest.  (grid) FluxSurfaceAdvection.gridStep on the distributed "
        "distribution function of simulated worlds (flux_surface layout, process grids biased to a split along v) vs the "
        "per-surface reference with each surface's own GLOBAL (r, v); non-trivial = v split over >= 2 ranks.")
ASSUMPTIONS = ["uniform theta and z grids (what setups build)", "rotational transform constant in r (Constants.iota)",
               "serial Layout objects (no MPI needed for step)", "simulated MPI for the grid-level sub-check"]

EPS = np.finfo(float).eps
TWO_PI = 2 * np.pi


@st.composite
def cases(draw, tier):
    exact = draw(st.integers(0, 4)) == 0
    cu = draw(st.booleans())
    deg = 3 if cu else draw(st.integers(1, 5))
    ntheta = draw(st.integers(max(4, deg + 1), 12))
    nz = draw(st.integers(6, 14))
    nr = draw(st.integers(1, 3))
    nv = draw(st.integers(1, 3))
    rs = sorted(draw(st.lists(st.floats(0.1, 14.5), min_size=nr, max_size=nr, unique=True)))
    near = (not exact) and draw(st.integers(0, 3)) == 0
    if exact:
        k = draw(st.integers(2, 6))
        dz = 2.0 ** (-k)
        R0 = dz * nz / TWO_PI
        vs = sorted({dz * draw(st.integers(-12, 12)) for _ in range(nv)})
        dt = float(draw(st.sampled_from([-3, -2, -1, 1, 2, 5])))
        iota = 0.0
        if draw(st.booleans()):
            # the same on a twisted field: a foot exactly on a z node still has to follow the field line in theta.
            # b_z(r) is irrational in general, so v is searched (deterministically, a few ulps around the quotient) such
            # that the displacement ((-v) * b_z) * dt, evaluated as the code evaluates it, is bitwise m * dz
            iota = draw(st.sampled_from([0.8, -0.8, 0.35]))
            dt = draw(st.sampled_from([1.0, 2.0, 0.5])) * draw(st.sampled_from([-1.0, 1.0]))
            found = []
            for r_ in rs[:nv]:
                b = float(1 / np.sqrt(1 + (np.float64(r_) * iota / R0) ** 2))
                m = draw(st.integers(-12, 12))
                target = -m * dz / dt
                v_ = np.float64(target / b)
                cands = [v_]
                lo = hi = v_
                for _ in range(4):
                    lo, hi = np.nextafter(lo, -np.inf), np.nextafter(hi, np.inf)
                    cands += [lo, hi]
                hit = [float(c_) for c_ in cands if float(((-c_) * np.float64(b)) * dt) == m * dz]
                if hit:
                    found.append(hit[0])
            if found:
                vs = sorted(set(found))
            else:
                iota = 0.0
                if abs(dt) < 1:
                    dt = math.copysign(1.0, dt)
    else:
        R0 = draw(st.sampled_from([1.0, 10.0, 239.8081535]))
        # the z domain need not be exactly one toroidal turn long (zMax is a free constant)
        dz = TWO_PI * R0 / nz * draw(st.sampled_from([1.0, 1.0, 0.5, 1.7]))
        vs = sorted(set(draw(st.lists(st.floats(-8, 8), min_size=nv, max_size=nv))))
        dt = draw(st.sampled_from([0.0625, 0.5, 2.0, 8.0, 32.0])) * draw(st.sampled_from([-1.0, 1.0]))
        iota = draw(st.one_of(st.sampled_from([0.0, 0.8, -0.8]), st.floats(-2, 2)))
        if near:
            # displacement = whole number of cells + a tiny remainder: the foot is beside a node, not on it
            iota = draw(st.sampled_from([0.0, 0.8]))
            cells = draw(st.integers(-30, 30))
            epsc = draw(st.sampled_from([1e-3, 1e-5, 1e-7, 1e-9, -1e-4, -1e-6, -1e-8]))
            bz = [1.0 / (1.0 + (r_ * iota / R0) ** 2) ** 0.5 for r_ in rs]
            vs = sorted({-(cells + epsc) * dz / (b * dt) for b in bz[:nv]})
    modes = draw(st.lists(st.tuples(st.integers(0, 3), st.integers(-2, 2), st.floats(-2, 2), st.floats(0, 6.3)),
                          min_size=0, max_size=3))
    return {"deg": deg, "cu": cu, "ntheta": ntheta, "nz": nz, "dz": dz, "R0": R0, "r": rs, "v": list(vs), "dt": dt,
            "iota": iota, "modes": [list(m) for m in modes], "noise": draw(st.sampled_from([0.0, 0.1, 1.0])),
            "seed": draw(st.integers(0, 2 ** 16)), "const": draw(st.floats(-3, 3)),
            "roll": draw(st.integers(1, 13)), "alpha": draw(st.floats(-2, 2)), "exact": exact, "near": near}


def build(case):
    from pygyro.splines.splines import make_knots, BSplines
    from pygyro.model.layout import Layout
    from pygyro.advection.advection import FluxSurfaceAdvection
    from pygyro.initialisation.constants import Constants
    ntheta, nz, deg = case["ntheta"], case["nz"], case["deg"]
    space = {"degree": deg, "periodic": True, "uniform": bool(case["cu"]),
             "breaks": [float(x) for x in np.linspace(0, TWO_PI, ntheta + 1)], "uniform_breaks": True}
    basis = bspl.make_basis(space)
    theta = np.asarray(basis.greville, dtype=float)
    zgrid = case["dz"] * np.arange(nz)
    zsp = BSplines(make_knots(np.linspace(0, case["dz"] * nz, nz + 1), 3, True), 3, True, True)
    eta = [np.array(case["r"]), theta, zgrid, np.array(case["v"])]
    layout = Layout("flux_surface", [1, 1], [0, 3, 1, 2], eta, [0, 0])
    consts = Constants()
    consts.iotaVal = case["iota"]
    consts.R0 = case["R0"]
    adv = FluxSurfaceAdvection(eta, [basis, zsp], layout, case["dt"], consts)
    return space, basis, theta, zgrid, adv


def field(case, theta, zgrid, seed_shift=0):
    Lz = case["dz"] * case["nz"]
    f = np.full((len(theta), len(zgrid)), case["const"])
    for m, n, amp, ph in case["modes"]:
        f = f + amp * np.cos(m * theta[:, None] + n * TWO_PI * zgrid[None, :] / Lz + ph)
    if case["noise"]:
        f = f + case["noise"] * np.random.default_rng(case["seed"] + seed_shift).standard_normal(f.shape)
    return f


def predicate(case):
    with crash_is_violation("C10:build", "building FluxSurfaceAdvection"):
        space, basis, theta, zgrid, adv = build(case)
    tint = advect.ThetaInterp(space, basis, theta)
    if tint.cond > 1e8:
        raise Inconclusive("ill-conditioned theta collocation")
    f0 = field(case, theta, zgrid)
    g0 = field(case, theta, zgrid, seed_shift=7) * 0.5 + 1.0
    scale = float(np.abs(f0).max()) + 1e-300
    path = "cu" if basis.cubic_uniform else "nu"
    nontriv = False
    labels = [path, "deg%d" % case["deg"], "iota0" if case["iota"] == 0 else "iota!=0"]
    nev = 0
    for ri, r in enumerate(case["r"]):
        for vi, v in enumerate(case["v"]):
            want, info = advect.flux_step_ref(f0, theta, case["dz"], zgrid[1], v, r, case["dt"], case["iota"],
                                              case["R0"], tint)
            zc = info["zeta_cells"]
            tol = 1e3 * EPS * tint.cond * scale * (2.0 + abs(zc)) * 4
            with crash_is_violation("C10:step", "FluxSurfaceAdvection.step"):
                got = f0.copy()
                adv.step(got, vi, ri)
            nev += 1
            err = np.abs(got - want).max()
            if not err <= tol:
                raise Violation("C10:%s:formula" % path,
                                "step(f, vIdx=%d, rIdx=%d): max |got-ref| = %.3e > tol %.3e (r=%r v=%r dt=%r iota=%r, "
                                "displacement %.3f cells)" % (vi, ri, err, tol, r, v, case["dt"], case["iota"], zc))
            # in place on whatever array is handed over (interpreted kernels only): a slice of a larger block
            if interpreted_kernels():
                blk = np.full(f0.shape + (2,), np.nan)
                blk[..., 1] = f0
                with crash_is_violation("C10:step", "FluxSurfaceAdvection.step (f given as a view)"):
                    adv.step(blk[..., 1], vi, ri)
                if not (np.abs(blk[..., 1] - got) <= 1e-12 * scale).all() or not np.isnan(blk[..., 0]).all():
                    raise Violation("C10:%s:view" % path, "step on a slice of a larger block: max |f_view - f_contiguous| = %.3e"
                                    % np.nanmax(np.abs(blk[..., 1] - got)))
            # constants preserved
            cst = np.full_like(f0, 1.75)
            adv.step(cst, vi, ri)
            if np.abs(cst - 1.75).max() > 1e3 * EPS * tint.cond * 4:
                raise Violation("C10:%s:constants" % path, "constant field changed by %.3e" % np.abs(cst - 1.75).max())
            # linearity
            lin = f0 + case["alpha"] * g0
            adv.step(lin, vi, ri)
            gg = g0.copy()
            adv.step(gg, vi, ri)
            s2 = scale + abs(case["alpha"]) * float(np.abs(g0).max())
            if np.abs(lin - (got + case["alpha"] * gg)).max() > 8e3 * EPS * tint.cond * s2 * (2.0 + abs(zc)) + 1e-290:
                raise Violation("C10:%s:linearity" % path, "step(f+a g) - step(f) - a step(g) = %.3e"
                                % np.abs(lin - (got + case["alpha"] * gg)).max())
            # commutes with shifts in z
            k = case["roll"] % case["nz"]
            rolled = np.roll(f0, k, axis=1)
            adv.step(rolled, vi, ri)
            if np.abs(rolled - np.roll(got, k, axis=1)).max() > 1e-13 * scale * (2.0 + abs(zc)) + tol * 0.01:
                raise Violation("C10:%s:z-shift" % path, "step(roll(f)) != roll(step(f)): %.3e"
                                % np.abs(rolled - np.roll(got, k, axis=1)).max())
            # exact circular shift
            if case["exact"] and case["iota"] != 0:
                if zc == int(round(zc)) and np.count_nonzero(info["weights"]) == 1:
                    labels.append("on-node-with-twist")
            if case["exact"] and case["iota"] == 0:
                kk = int(round(zc))
                if zc != kk:
                    raise RuntimeError("generator error: displacement %r not a whole number of cells" % zc)
                if not (np.count_nonzero(info["weights"]) == 1 and info["weights"].max() == 1.0):
                    raise RuntimeError("oracle error: on-node weights")
                shifted = np.roll(f0, -kk, axis=1)
                if np.abs(got - shifted).max() > 1e3 * EPS * tint.cond * scale:
                    raise Violation("C10:%s:exact-shift" % path, "whole-cell displacement %d (iota=0): result differs from the "
                                    "circular shift by %.3e" % (kk, np.abs(got - shifted).max()))
                labels.append("exact-shift")
            if float(np.ptp(f0)) > 0 and (abs(zc) > 1 or zc < 0 or case["iota"] != 0):
                nontriv = True
            if abs(zc) > case["nz"]:
                labels.append("more-than-a-turn")
            fracc = abs(zc - round(zc))
            if 0 < fracc < 2e-3:
                labels.append("foot-beside-a-node")
    return {"nontrivial": nontriv, "labels": sorted(set(labels)), "evals": nev}


# ------------------------------------------------------------------------------------------------
# grid level: every (r, v) surface owned by a rank is advected with the parameters of its own global (r, v)
# ------------------------------------------------------------------------------------------------
@st.composite
def grid_cases(draw, tier):
    from .. import sim
    cfg = draw(sim.sim_config(tier))
    maxP = 6 if tier == "quick" else 12
    grids = sim.admissible_grids(cfg["npts"], maxP)
    vsplit = [g for g in grids if g[1] > 1]
    g = draw(st.sampled_from(vsplit if vsplit and draw(st.integers(0, 4)) > 0 else grids))
    return {"cfg": cfg, "nprocs": g, "seed": draw(st.integers(0, 2 ** 16)), "schedule": draw(gen.schedules(8))}


def _grid_rank(ctx, c):
    from .. import sim
    rs = sim.RankSim(ctx.comm, c["cfg"], c["nprocs"], diagnostics=False)
    f = rs.f
    F = sim.equilibrium_like_field(c["cfg"], f.eta_grid, c["seed"])
    f.setLayout('flux_surface')
    sim.fill(f, F)
    rs.fluxAdv.gridStep(f)
    out = {"once": sim.piece(f)}
    rs.fluxAdv.gridStep(f)                      # the same operator object again, on its own output
    out["twice"] = sim.piece(f)
    return out


def grid_pred(c):
    from .. import sim, gridref
    from ..simmpi import core
    cfg = c["cfg"]
    P = c["nprocs"][0] * c["nprocs"][1]
    res, w = run_world(P, _grid_rank, (c,), schedule=c["schedule"], key="C10:grid")
    g, consts = sim.setup_distrib(core.COMM_WORLD, cfg, "v_parallel", [1, 1], save=False)
    eta = g.eta_grid
    ref = gridref.GridRef(eta, [g.getSpline(i) for i in range(4)], consts)
    F = sim.equilibrium_like_field(cfg, eta, c["seed"])
    half = consts.dt * 0.5
    once = ref.flux(F, half)
    scale = float(np.abs(F).max())
    for name, want in (("once", once), ("twice", ref.flux(once, half))):
        got = sim.assemble([r[name] for r in res], tuple(cfg["npts"]), name)
        err = np.abs(got - want)
        if not (err <= 1e-9 * scale).all():
            idx = tuple(int(x) for x in np.argwhere(~(err <= 1e-9 * scale))[0])
            raise Violation("C10:grid:" + name, "process grid %s: surface (r=%d, v=%d) node (theta=%d, z=%d) is %r; the field-aligned "
                            "shift with that surface's global radius and velocity gives %r (|diff| %.3e, scale %.3e)"
                            % (c["nprocs"], idx[0], idx[3], idx[1], idx[2], got[idx], want[idx], float(err[idx]), scale))
    return {"nontrivial": c["nprocs"][1] > 1, "labels": ["P=%d" % P, "v-split" if c["nprocs"][1] > 1 else "v-whole",
                                                          "r-split" if c["nprocs"][0] > 1 else "r-whole",
                                                          "iota=0" if cfg["iotaVal"] == 0 else "iota!=0"], "evals": 2}


SUBS = {"step": Sub(predicate, strategy=cases), "grid": Sub(grid_pred, strategy=grid_cases)}


def init_worker(tier):
    import warnings
    from .. import sim
    warnings.simplefilter("ignore")
    sim.install()


def jobs(tier):
    n, ng = (60, 5) if tier == "quick" else (3500, 400)
    return ([{"sub": "step", "n": n, "shard": i} for i in range(12)] +
            [{"sub": "grid", "n": ng, "shard": i} for i in range(8)])
