"""
C11 -- V-parallel advection evaluates the interpolant at v - c*dt; boundary rule holds.
(kernel level here; the grid-level step on all process grids is sub-check "grid", see pgv.sim)
"""
import math

import numpy as np
from hypothesis import strategies as st

from .. import gen
from ..harness import Sub, Violation, Inconclusive, crash_is_violation, run_world, interpreted_kernels
from ..oracles import bspl, advect

PROPERTY = "C11"
HANG_SECONDS = 900.0
LINE_BUDGET = 20000000000
RULE = ("(line) Hypothesis-generated v spaces (4-16 points; clamped uniform cubic fast path, or general degree 1-5 on "
        "uniform or non-uniform breaks), c*dt of either sign incl. 0, sub-cell, multi-cell and larger than the domain, "
        "the three boundary modes (any other string must raise RuntimeError), r across the radial domain, arbitrary "
        "nodal values.  Oracle: f_new[i] = S(v_i - c dt) with S from an independent dense collocation solve, evaluated "
        "by the scipy reference; feet outside [vMin,vMax] (decision taken on the same floating-point expression) take "
        "f_eq(r, foot) (own formula), 0 or the periodic image.  (grid) VParallelAdvection.gridStep / "
        "gridStepKeepGradient on simulated worlds over all admissible process grids: every (r,z,theta) line must be "
        "advected with the parallel gradient of phi at that same GLOBAL position (reference: C13 oracle + line "
        "oracle).  Non-trivial = a foot outside the domain or c*dt<0 (line); z split over >=2 ranks (grid).")
ASSUMPTIONS = ["condition-aware tolerance 1e3 eps cond |f|; periodic image compared with slope bound x accumulated rounding",
               "grid level: simulated MPI; rotational transform constant in r"]

EPS = np.finfo(float).eps


@st.composite
def line_cases(draw, tier):
    kind = draw(st.integers(0, 2))
    if kind == 0:
        space = draw(gen.spline_space(cubic_uniform=True, periodic=False, min_cells=1, max_cells=13))
    else:
        space = draw(gen.spline_space(max_degree=5, periodic=False, min_cells=1, max_cells=12, cubic_uniform=False))
    # a velocity-like domain
    nc = len(space["breaks"]) - 1
    # (the last two are non-round: the grid's end nodes, rounded to 15 decimals, then differ from the knots by an ulp)
    vmax = draw(st.sampled_from([7.32, 1.0, 5.0, 5 * math.sqrt(2), math.pi]))
    b = np.array(space["breaks"])
    b = (b - b[0]) / (b[-1] - b[0]) * 2 * vmax - vmax
    b[0], b[-1] = -vmax, vmax
    space = dict(space, breaks=[float(x) for x in b])
    nb = nc + space["degree"]
    width = 2 * vmax
    shift = draw(st.one_of(st.just(0.0), st.floats(-0.5, 0.5).map(lambda x: x * width / nc),
                           st.floats(-3, 3).map(lambda x: x * width / nc * 2),
                           st.floats(-3.5, 3.5).map(lambda x: x * width)))
    dt = draw(st.sampled_from([1.0, 2.0, 0.5, -1.0, 0.125]))
    return {"space": space, "f": draw(st.lists(st.floats(-10, 10), min_size=nb, max_size=nb)),
            "c": shift / dt, "dt": dt, "r": draw(st.floats(0.1, 14.5)),
            "mode": draw(st.sampled_from(["fEq", "null", "periodic", "fEq"])),
            "bad_mode": draw(st.sampled_from(["", "feq", "Null", "dirichlet", "PERIODIC"]))}


def line_pred(case):
    from pygyro.advection.advection import VParallelAdvection
    from pygyro.initialisation.constants import Constants
    space = case["space"]
    with crash_is_violation("C11:build", "building the v space"):
        basis = bspl.make_basis(space)
    consts = Constants()
    cd = advect.const_dict(consts)
    vpts = np.asarray(basis.greville, dtype=float)
    eta = [None, None, None, vpts]
    try:
        VParallelAdvection(eta, basis, consts, edge=case["bad_mode"])
        raise Violation("C11:bad-mode-accepted", "boundary mode %r was accepted" % case["bad_mode"])
    except RuntimeError:
        pass
    except Violation:
        raise
    except Exception as e:  # noqa
        raise Violation("C11:bad-mode-wrong-exception", "boundary mode %r raised %s instead of RuntimeError"
                        % (case["bad_mode"], type(e).__name__))
    with crash_is_violation("C11:build", "building VParallelAdvection"):
        adv = VParallelAdvection(eta, basis, consts, edge=case["mode"])
    ref = bspl.Ref(space, basis)
    f = np.array(case["f"], dtype=float)
    want, info = advect.vpar_step_ref(f, vpts, case["c"], case["dt"], case["r"], case["mode"], ref, cd)
    if info["cond"] > 1e10:
        raise Inconclusive("ill-conditioned collocation")
    with crash_is_violation("C11:step", "VParallelAdvection.step (%s)" % case["mode"]):
        got = f.copy()
        adv.step(got, case["dt"], case["c"], case["r"])
    scale = float(np.abs(f).max()) + 1e-300
    tol = 1e3 * EPS * info["cond"] * scale
    if interpreted_kernels():
        # in place on whatever array is handed over: every other element of a larger buffer
        big = np.full(2 * len(f) + 1, np.nan)
        big[1::2] = f
        with crash_is_violation("C11:step", "VParallelAdvection.step (%s, f given as a strided view)" % case["mode"]):
            adv.step(big[1::2], case["dt"], case["c"], case["r"])
        if not (np.abs(big[1::2] - got) <= 1e-12 * scale).all() or not np.isnan(big[0::2]).all():
            raise Violation("C11:%s:view" % ("cu" if basis.cubic_uniform else "nu"), "step on a strided view: max |f_view - "
                            "f_contiguous| = %.3e" % np.nanmax(np.abs(big[1::2] - got)))
    if case["mode"] == "periodic":
        width = vpts[-1] - vpts[0]
        tol = tol + info["slope_bound"] * EPS * 8 * (np.abs(info["feet"]).max() + width)
        img = info["foot_used"]
        k = (info["feet"] - img) / width
        if (img < vpts[0]).any() or (img > vpts[-1]).any() or np.abs(k - np.round(k)).max() > 1e-9:
            raise RuntimeError("oracle error: periodic image")
    path = "cu" if basis.cubic_uniform else "nu"
    err = np.abs(got - want)
    if case["mode"] == "periodic":
        # a foot that is congruent to the domain boundary itself has two periodic images in the closed interval
        # (vMin and vMax); the statement does not say which one is meant, so either value is accepted there
        img = info["foot_used"]
        edge = info["outside"] & ((img == vpts[0]) | (img == vpts[-1]))
        if edge.any():
            other = np.where(img == vpts[0], vpts[-1], vpts[0])
            alt = ref.eval(info["coeffs"], other[edge]) if "coeffs" in info else None
            if alt is not None:
                err[edge] = np.minimum(err[edge], np.abs(got[edge] - alt))
    if not (err <= tol).all():
        i = int(np.argmax(err))
        raise Violation("C11:%s:%s:%s" % (path, case["mode"], "outside" if info["outside"][i] else "inside"),
                        "node %d (v=%r, foot=%r, %s the domain): got %r, expected %r (tol %.2e, c*dt=%r, r=%r)"
                        % (i, vpts[i], info["feet"][i], "outside" if info["outside"][i] else "inside", got[i], want[i],
                           tol, case["c"] * case["dt"], case["r"]))
    nout = int(info["outside"].sum())
    labels = [path, case["mode"], "outside" if nout else "all-inside",
              "shift0" if case["c"] == 0 else ("shift<0" if case["c"] * case["dt"] < 0 else "shift>0")]
    return {"nontrivial": (nout > 0 or case["c"] * case["dt"] < 0) and float(np.ptp(f)) > 0, "labels": labels}


# ------------------------------------------------------------------------------------------------
# grid level
# ------------------------------------------------------------------------------------------------
@st.composite
def grid_cases(draw, tier):
    from .. import sim
    cfg = draw(sim.sim_config(tier))
    maxP = 6 if tier == "quick" else 12
    grids = sim.admissible_grids(cfg["npts"], maxP)
    zsplit = [g for g in grids if g[1] > 1]
    g = draw(st.sampled_from(zsplit if zsplit and draw(st.integers(0, 4)) > 0 else grids))
    return {"cfg": cfg, "nprocs": g, "seed": draw(st.integers(0, 2 ** 16)), "edge": draw(st.sampled_from(["fEq", "fEq", "null"])),
            "phiamp": draw(st.sampled_from([0.5, 3.0, 30.0])), "schedule": draw(gen.schedules(8))}


def _grid_rank(ctx, c):
    from .. import sim
    from pygyro.advection.advection import VParallelAdvection
    rs = sim.RankSim(ctx.comm, c["cfg"], c["nprocs"], diagnostics=False)
    f = rs.f
    eta = f.eta_grid
    F = sim.equilibrium_like_field(c["cfg"], eta, c["seed"])
    Phi = c["phiamp"] * sim.smooth_noise_field(tuple(len(e) for e in eta[:3]), c["seed"] + 1)
    adv = VParallelAdvection(eta, f.getSpline(3), rs.constants, edge=c["edge"])
    phi = rs.new_phi('v_parallel_1d')
    sim.fill(phi, Phi.astype(complex))
    f.setLayout('v_parallel')
    sim.fill(f, F)
    adv.gridStep(f, phi, rs.parGrad, rs.parGradVals, rs.halfStep)
    out = {"step": sim.piece(f)}
    sim.fill(f, F)
    adv.gridStepKeepGradient(f, rs.parGradVals, rs.halfStep)
    out["keep"] = sim.piece(f)
    return out


def grid_pred(c):
    from .. import sim, gridref
    from ..simmpi import core
    cfg = c["cfg"]
    P = c["nprocs"][0] * c["nprocs"][1]
    res, w = run_world(P, _grid_rank, (c,), schedule=c["schedule"], key="C11:grid")
    g, consts = sim.setup_distrib(core.COMM_WORLD, cfg, "v_parallel", [1, 1], save=False)
    eta = g.eta_grid
    ref = gridref.GridRef(eta, [g.getSpline(i) for i in range(4)], consts)
    F = sim.equilibrium_like_field(cfg, eta, c["seed"])
    Phi = c["phiamp"] * sim.smooth_noise_field(tuple(len(e) for e in eta[:3]), c["seed"] + 1)
    grad = ref.pargrad(Phi)
    want = ref.vpar(F, grad, consts.dt * 0.5, c["edge"])
    scale = float(np.abs(F).max())
    nout = 0
    for name in ("step", "keep"):
        got = sim.assemble([r[name] for r in res], tuple(cfg["npts"]), name)
        err = np.abs(got - want)
        # inside the domain the value comes from an interpolant (error relative to the field's scale); outside it is the
        # boundary value itself (equilibrium at (r, foot), tiny but computed to full relative accuracy)
        tol_el = np.where(ref.last_outside, 1e-9 * np.abs(want) + 1e-300, 1e-9 * scale)
        if not (err <= tol_el).all():
            idx = tuple(int(x) for x in np.argwhere(~(err <= tol_el))[0])
            raise Violation("C11:grid:" + name, "process grid %s, edge %s: line (r=%d, theta=%d, z=%d) node v=%d is %r; advecting it with "
                            "the parallel gradient at that global position (%.4g) gives %r"
                            % (c["nprocs"], c["edge"], idx[0], idx[1], idx[2], idx[3], got[idx], grad[idx[0], idx[2], idx[1]], want[idx]))
    v = np.asarray(eta[3])
    feet_out = bool(((v[None, None, None, :] - grad[:, :, :, None] * consts.dt * 0.5 < v[0]) |
                     (v[None, None, None, :] - grad[:, :, :, None] * consts.dt * 0.5 > v[-1])).any())
    return {"nontrivial": c["nprocs"][1] > 1, "labels": ["P=%d" % P, c["edge"], "z-split" if c["nprocs"][1] > 1 else "z-whole",
                                                          "feet-outside" if feet_out else "all-inside"], "evals": 2}


SUBS = {"line": Sub(line_pred, strategy=line_cases), "grid": Sub(grid_pred, strategy=grid_cases)}


def init_worker(tier):
    import warnings
    from .. import sim
    warnings.simplefilter("ignore")
    sim.install()


def jobs(tier):
    n, ng = (200, 5) if tier == "quick" else (20000, 500)
    return ([{"sub": "line", "n": n, "shard": i} for i in range(8)] +
            [{"sub": "grid", "n": ng, "shard": i} for i in range(8)])
