"""
C17 -- Diagnostics and global reductions equal serial quadrature of the global field.
"""
import warnings

import numpy as np
from hypothesis import strategies as st

from .. import gen, sim, managers as mg
from ..harness import Sub, Violation, run_world
from ..oracles import globalarr as ga

PROPERTY = "C17"
HANG_SECONDS = 400.0
LINE_BUDGET = 1000000000
RULE = ("(norms) Hypothesis-generated 4-D and 3-D grids with NON-uniform r and v coordinates (so weights vary), uniform "
        "theta and z, the three standard layouts and phi swapper layouts (incl. layouts replicated along one process "
        "direction), generated process grids, real and complex fields, the field == 1: the sum over ranks (one "
        "representative per replica class; all replicas must agree) of l2NormSquared / l1Norm / getN / getKE equals the "
        "serial trapezoid(r,v) x rectangle(theta,z) quadrature of the assembled global field, and for f == 1 the analytic "
        "volume; (minmax) Grid.getMin/getMax for every argument shape (whole grid, scalar and list axis/fixValue, slices "
        "owned by one rank only, any drawing rank) equal those of the global field, None off the root; (collector) "
        "DiagnosticCollector.collect at t = k dt then reduce() under a generated reduction order: rank 0 holds, in slot "
        "k mod saveStep, the serial values.  Non-trivial = non-constant field with r or v split and a block not starting "
        "at index 0.")
ASSUMPTIONS = ["simulated MPI (reductions fold contributions in a generated order)", "integer dt in the collector",
               "replicated layouts: one representative of each replica class is summed, replicas must agree exactly"]

EPS = np.finfo(float).eps
TWO_PI = 2 * np.pi


def init_worker(tier):
    warnings.simplefilter("ignore")
    sim.install()


def make_eta(c):
    nr, nq, nz, nv = c["npts"]
    rng = np.random.default_rng(c["seed"])
    r = np.cumsum(0.3 + rng.uniform(0.2, 1.5, nr)) + 0.1
    v = np.cumsum(0.3 + rng.uniform(0.2, 1.5, nv)) - 3.0
    q = np.linspace(0, TWO_PI, nq, endpoint=False)
    z = np.linspace(0, c["zmax"], nz, endpoint=False)
    return [r, q, z, v]


def trap(x):
    d = np.diff(x)
    return np.concatenate([[d[0] * 0.5], (d[1:] + d[:-1]) * 0.5, [d[-1] * 0.5]])


def serial_values(F, eta):
    r, q, z = eta[0], eta[1], eta[2]
    wr = trap(r) * r
    dq, dz = q[2] - q[1], z[2] - z[1]
    if F.ndim == 4:
        v = eta[3]
        wv = trap(v)
        W = wr[:, None, None, None] * wv[None, None, None, :] * dq * dz
        return {"l2": float(np.sum(np.real(F * np.conj(F)) * W)), "l1": float(np.sum(np.abs(np.real(F)) * W)),
                "n": float(np.sum(np.real(F) * W)),
                "ke": float(np.sum(np.real(F) * W * (v ** 2)[None, None, None, :]) * 0.5)}
    W = wr[:, None, None] * dq * dz
    return {"l2": float(np.sum(np.real(F * np.conj(F)) * W))}


@st.composite
def norm_cases(draw, tier):
    maxP = 6 if tier == "quick" else 12
    npts = [draw(st.integers(4, 7)), draw(st.integers(4, 7)), draw(st.integers(4, 7)), draw(st.integers(4, 7))]
    grids = sim.admissible_grids(npts, maxP)
    g = draw(st.sampled_from([x for x in grids if x[0] * x[1] >= 2] or grids))
    return {"npts": npts, "nprocs": g, "seed": draw(st.integers(0, 2 ** 16)), "zmax": draw(st.sampled_from([1.0, 12.5, 1506.7])),
            "complex": draw(st.booleans()), "ones": draw(st.integers(0, 3)) == 0, "schedule": draw(gen.schedules(8)),
            "reduce_seed": draw(st.integers(0, 1000))}


def field4(c, eta, dims=4):
    shape = tuple(len(e) for e in eta[:dims])
    if c["ones"]:
        return np.ones(shape, dtype=complex if (c["complex"] and dims == 3) else float)
    F = sim.smooth_noise_field(shape, c["seed"] + dims, noise=0.5)
    if c["complex"] and dims == 3:
        F = F + 1j * sim.smooth_noise_field(shape, c["seed"] + 17, noise=0.5)
    return F


def _norm_rank(ctx, c):
    from pygyro.model.layout import getLayoutHandler, LayoutSwapper
    from pygyro.model.grid import Grid
    from pygyro.diagnostics.norms import l2, l1, nParticles
    from pygyro.diagnostics.energy import KineticEnergy
    eta = make_eta(c)
    nprocs = list(c["nprocs"])
    h = getLayoutHandler(ctx.comm, dict(sim.STD_LAYOUTS), nprocs, eta)
    F = field4(c, eta, 4)
    out = {}
    for lay in sim.STD_LAYOUTS:
        g = Grid(eta, [None] * 4, h, lay, ctx.comm)
        sim.fill(g, F)
        L = h.getLayout(lay)
        out["f:" + lay] = {"l2": l2(eta, L).l2NormSquared(g), "l1": l1(eta, L).l1Norm(g), "n": nParticles(eta, L).getN(g),
                           "ke": KineticEnergy(eta, L).getKE(g), "block": (tuple(int(x) for x in L.starts), tuple(int(x) for x in L.ends))}
    sw = LayoutSwapper(ctx.comm, [{'v_parallel_2d': [0, 2, 1], 'mode_solve': [1, 2, 0]}, {'v_parallel_1d': [0, 2, 1]},
                                  {'poloidal': [2, 1, 0]}], [nprocs, nprocs[0], nprocs[1]], eta[:3], 'v_parallel_2d')
    P3 = field4(c, eta, 3)
    for lay in ['v_parallel_2d', 'mode_solve', 'v_parallel_1d', 'poloidal']:
        g = Grid(eta[:3], [None] * 3, sw, lay, ctx.comm, dtype=complex if c["complex"] else float)
        sim.fill(g, P3)
        L = sw.getLayout(lay)
        out["phi:" + lay] = {"l2": l2(eta[:3], L).l2NormSquared(g),
                             "block": (tuple(int(x) for x in L.starts), tuple(int(x) for x in L.ends))}
    return out


def norm_pred(c):
    P = c["nprocs"][0] * c["nprocs"][1]
    res, w = run_world(P, _norm_rank, (c,), schedule=c["schedule"], key="C17:norms")
    eta = make_eta(c)
    want4 = serial_values(field4(c, eta, 4), eta)
    want3 = serial_values(field4(c, eta, 3), eta)
    offset = False
    for name in res[0]:
        want = want4 if name.startswith("f:") else want3
        classes = {}
        for rk, r in enumerate(res):
            classes.setdefault(r[name]["block"], []).append(rk)
            if any(s > 0 for s in r[name]["block"][0]):
                offset = True
        for key in want:
            tot = 0.0
            mag = 0.0
            for blk, ranks in classes.items():
                vals = [res[rk][name][key] for rk in ranks]
                if any(v != vals[0] for v in vals):
                    raise Violation("C17:replicas-differ", "%s %s: replicas %s report different local values %s" % (name, key, ranks, vals))
                tot += vals[0]
                mag += abs(vals[0])
            tol = 1e-12 * (mag + abs(want[key]) + 1e-300)
            if abs(tot - want[key]) > tol:
                raise Violation("C17:%s:%s" % (key, name.split(":")[0]),
                                "layout %s on grid %s: sum over ranks of %s = %r, serial quadrature of the global field = %r"
                                % (name, c["nprocs"], key, tot, want[key]))
    if c["ones"]:
        r, q, z, v = eta
        vol3 = (r[-1] ** 2 - r[0] ** 2) / 2 * len(q) * (q[2] - q[1]) * len(z) * (z[2] - z[1])
        vol4 = vol3 * (v[-1] - v[0])
        for key, wv, what in (("l2", want4["l2"], vol4), ("l1", want4["l1"], vol4), ("n", want4["n"], vol4)):
            if abs(wv - what) > 1e-11 * what:
                raise RuntimeError("oracle error: serial quadrature of 1 is %r, analytic volume %r" % (wv, what))
        tot = sum(r_["f:v_parallel"]["l2"] for r_ in res)
        if abs(tot - vol4) > 1e-11 * vol4:
            raise Violation("C17:volume", "l2 norm squared of f == 1 is %r, analytic volume factor %r" % (tot, vol4))
        tot3 = sum(r_["phi:v_parallel_2d"]["l2"] for r_ in res)
        if abs(tot3 - vol3) > 1e-11 * vol3:
            raise Violation("C17:volume", "l2 norm squared of phi == 1 is %r, analytic volume factor %r" % (tot3, vol3))
    return {"nontrivial": offset and not c["ones"], "labels": ["P=%d" % P, "ones" if c["ones"] else "generic",
                                                              "complex" if c["complex"] else "real"], "evals": 16}


# ----------------------------------------------------------------------------------------------
@st.composite
def minmax_cases(draw, tier):
    if draw(st.integers(0, 2)) == 0:
        cfg = draw(mg.swapper_config(tier, max_extent=7))
        lay = cfg["start"]
    else:
        cfg = draw(mg.handler_config(tier, min_dims=3, max_extent=7, connected_only=True))
        lay = draw(st.sampled_from([n for n, _ in cfg["layouts"]]))
    nd = len(cfg["shape"])
    P = mg.nranks_cfg(cfg)
    q = []
    for _ in range(draw(st.integers(1, 4))):
        k = draw(st.integers(0, 2))
        if k == 0:
            q.append({"axis": None, "fix": None})
        elif k == 1:
            ax = draw(st.integers(0, nd - 1))
            q.append({"axis": ax, "fix": draw(st.integers(0, cfg["shape"][ax] - 1))})
        else:
            axes = draw(st.lists(st.integers(0, nd - 1), min_size=2, max_size=min(nd - 1, 3), unique=True))
            q.append({"axis": axes, "fix": [draw(st.integers(0, cfg["shape"][a] - 1)) for a in axes]})
    for x in q:
        x["root"] = draw(st.integers(0, P - 1))
    return {"cfg": cfg, "layout": lay, "queries": q, "seed": draw(st.integers(0, 2 ** 16)),
            "complex": draw(st.booleans()), "schedule": draw(gen.schedules(12)), "reduce_seed": draw(st.integers(0, 1000))}


def _mm_rank(ctx, c):
    from pygyro.model.grid import Grid
    cfg = c["cfg"]
    try:
        man = mg.build(ctx.comm, cfg)
    except mg.Refused as e:
        return ("refused", str(e))
    shape = cfg["shape"]
    eta = mg.eta_grids(shape)
    F = mm_field(c)
    g = Grid(eta, [None] * len(shape), man, c["layout"], ctx.comm, dtype=complex if c["complex"] else float)
    sim.fill(g, F)
    out = []
    for qy in c["queries"]:
        kw = {"drawingRank": qy["root"]}
        if qy["axis"] is not None:
            kw["axis"] = qy["axis"]
            kw["fixValue"] = qy["fix"]
        out.append((g.getMin(**kw), g.getMax(**kw)))
    out.append((g.getMin(), g.getMax(), float(np.real(g.getAllData()).min()) if not c["complex"] else None))
    return ("ok", out)


def mm_field(c):
    F = sim.smooth_noise_field(tuple(c["cfg"]["shape"]), c["seed"], noise=1.0)
    if c["complex"]:
        F = F + 1j * sim.smooth_noise_field(tuple(c["cfg"]["shape"]), c["seed"] + 3, noise=1.0)
    return F


def minmax_pred(c):
    cfg = c["cfg"]
    P = mg.nranks_cfg(cfg)
    res, w = run_world(P, _mm_rank, (c,), schedule=c["schedule"], key="C17:minmax", reduce_seed=c["reduce_seed"])
    kinds = {r[0] for r in res}
    if kinds == {"refused"}:
        return {"nontrivial": False, "labels": ["refused"]}
    if kinds != {"ok"}:
        raise Violation("C17:divergent-refusal", "some ranks refused, others accepted")
    F = np.real(mm_field(c))
    for k, qy in enumerate(c["queries"]):
        idx = [slice(None)] * F.ndim
        if qy["axis"] is not None:
            for a, fx in zip(np.atleast_1d(qy["axis"]), np.atleast_1d(qy["fix"])):
                idx[int(a)] = int(fx)
        sub = F[tuple(idx)]
        for rk in range(P):
            mn, mx = res[rk][1][k]
            if rk == qy["root"]:
                if mn != sub.min() or mx != sub.max():
                    raise Violation("C17:minmax:value", "getMin/getMax(root=%d, axis=%s, fixValue=%s) in layout %s = (%r, %r), "
                                    "global field gives (%r, %r)" % (qy["root"], qy["axis"], qy["fix"], c["layout"], mn, mx,
                                                                     sub.min(), sub.max()))
            elif mn is not None or mx is not None:
                raise Violation("C17:minmax:non-root", "rank %d (not the drawing rank %d) received (%r, %r) instead of None"
                                % (rk, qy["root"], mn, mx))
    return {"nontrivial": P >= 2, "labels": ["P=%d" % P, cfg["kind"], "complex" if c["complex"] else "real"],
            "evals": len(c["queries"])}


# ----------------------------------------------------------------------------------------------
@st.composite
def coll_cases(draw, tier):
    cfg = draw(sim.sim_config(tier))
    maxP = 6 if tier == "quick" else 12
    grids = sim.admissible_grids(cfg["npts"], maxP)
    g = draw(st.sampled_from([x for x in grids if x[0] * x[1] >= 2] or grids))
    saveStep = draw(st.integers(1, 5))
    k0 = draw(st.integers(0, 12))
    # one to three collect/reduce cycles on the SAME collector (the driver reduces once per saveStep steps for the whole run)
    ncyc = draw(st.sampled_from([1, 2, 2, 3]))
    nsteps = [draw(st.integers(1, saveStep)) for _ in range(ncyc)]
    return {"cfg": cfg, "nprocs": g, "seed": draw(st.integers(0, 2 ** 16)), "saveStep": saveStep, "k0": k0,
            "nsteps": nsteps, "schedule": draw(gen.schedules(10)), "reduce_seed": draw(st.integers(0, 1000))}


def coll_fields(c, eta, k):
    F = sim.equilibrium_like_field(c["cfg"], eta, c["seed"] + 31 * k)
    Phi = sim.smooth_noise_field(tuple(len(e) for e in eta[:3]), c["seed"] + 31 * k + 5) \
        + 1j * 0.0
    return F, Phi


def _coll_rank(ctx, c):
    rs = sim.RankSim(ctx.comm, c["cfg"], c["nprocs"], save_step=c["saveStep"])
    eta = rs.f.eta_grid
    dt = c["cfg"]["dt"]
    dg = rs.diagnostics
    rs.f.setLayout('v_parallel')
    rs.phi.setLayout('v_parallel_2d')
    out = []
    k = c["k0"]
    for ns in c["nsteps"]:
        ks = []
        for _ in range(ns):
            F, Phi = coll_fields(c, eta, k)
            sim.fill(rs.f, F)
            sim.fill(rs.phi, Phi.astype(complex))
            dg.collect(rs.f, rs.phi, k * dt)
            ks.append(k)
            k += 1
        dg.reduce()
        if ctx.rank == 0:
            out.append({"ks": ks, "t": dg.diagnostics[0].copy(), "l2phi": np.array(dg.l2PhiResult), "l2f": np.array(dg.l2GridResult),
                        "l1": np.array(dg.l1Result), "n": np.array(dg.nPartResult), "min": np.array(dg.min_val),
                        "max": np.array(dg.max_val), "ke": np.array(dg.KE_val),
                        "lines": {kk: dg.getLine(kk % c["saveStep"]) for kk in ks}})
    return out if ctx.rank == 0 else None


def coll_pred(c):
    from ..simmpi import core
    P = c["nprocs"][0] * c["nprocs"][1]
    res, w = run_world(P, _coll_rank, (c,), schedule=c["schedule"], key="C17:collector", reduce_seed=c["reduce_seed"])
    got = res[0]
    if got is None or any(r is not None for r in res[1:]):
        raise RuntimeError("harness: unexpected collector results")
    g, consts = sim.setup_distrib(core.COMM_WORLD, c["cfg"], "v_parallel", [1, 1], save=False)
    eta = [np.asarray(e) for e in g.eta_grid]
    dt = c["cfg"]["dt"]
    LINE = ("t", "l2phi", "l2f", "l1", "n", "min", "max", "ke")
    if len(got) != len(c["nsteps"]):
        raise RuntimeError("harness: unexpected number of collector cycles")
    for cyc, rec in enumerate(got):
        for k in rec["ks"]:
            slot = k % c["saveStep"]
            F, Phi = coll_fields(c, eta, k)
            w4 = serial_values(F, eta)
            w3 = serial_values(Phi, eta)
            want = {"t": k * dt, "l2phi": np.sqrt(w3["l2"]), "l2f": np.sqrt(w4["l2"]), "l1": w4["l1"], "n": w4["n"],
                    "min": F.min(), "max": F.max(), "ke": w4["ke"]}
            for key, wv in want.items():
                gv = rec[key][slot]
                exact = key in ("t", "min", "max")
                if (gv != wv) if exact else not (abs(gv - wv) <= 1e-12 * (abs(wv) + 1e-300) * 4):
                    raise Violation("C17:collector:" + key, "reduce() number %d on one collector, step k=%d (t=%d) saveStep=%d: slot %d "
                                    "holds %s=%r, serial value %r" % (cyc + 1, k, k * dt, c["saveStep"], slot, key, gv, wv))
            # the printed line of that slot carries the same numbers (10 decimals; the time with 6 significant digits)
            try:
                vals = [float(x) for x in rec["lines"][k].split()]
            except ValueError:
                vals = []
            if len(vals) != 8:
                raise Violation("C17:collector:line", "getLine(%d) is not eight numbers: %r" % (slot, rec["lines"][k]))
            for key, lv in zip(LINE, vals):
                wv = float(want[key])
                rel = 1e-5 if key == "t" else 1e-9
                if not abs(lv - wv) <= rel * abs(wv) + 1e-300:
                    raise Violation("C17:collector:line", "reduce() number %d, step k=%d: printed %s=%r, serial value %r"
                                    % (cyc + 1, k, key, lv, wv))
    return {"nontrivial": P >= 2, "labels": ["P=%d" % P, "saveStep=%d" % c["saveStep"], "reduces=%d" % len(c["nsteps"])],
            "evals": sum(c["nsteps"])}


SUBS = {"norms": Sub(norm_pred, strategy=norm_cases), "minmax": Sub(minmax_pred, strategy=minmax_cases),
        "collector": Sub(coll_pred, strategy=coll_cases)}


def jobs(tier):
    n1, n2, n3 = (25, 40, 6) if tier == "quick" else (3500, 6000, 600)
    return ([{"sub": "norms", "n": n1, "shard": i} for i in range(6)] +
            [{"sub": "minmax", "n": n2, "shard": i} for i in range(5)] +
            [{"sub": "collector", "n": n3, "shard": i} for i in range(5)])
