"""
C07 -- Spline evaluation equals the mathematical B-spline on every entry point.
"""
import numpy as np
from hypothesis import strategies as st

from .. import gen
from ..harness import Sub, Violation, crash_is_violation
from ..oracles import bspl

PROPERTY = "C07"
HANG_SECONDS = 60.0
LINE_BUDGET = 1000000000
RULE = ("Hypothesis-generated spline spaces (degree 1-5, 1-D up to 10; 1-12 cells; uniform / non-uniform breaks "
        "with adjacent ratio <= 20; clamped / periodic; uniform flag only on uniform breaks so degree 3 takes "
        "the uniform-cubic path), coefficient vectors (floats |c|<=1e3, unit vectors, constants; periodic "
        "wrapped), evaluation points = every breakpoint, both end points, one ulp inside each, cell midpoints and "
        "generated interior points, der in {0,1}, (der1,der2) in {0,1}^2.  Oracle = scipy.interpolate.BSpline on "
        "the knot vector the path really uses (cross-checked by a Cox-de Boor recursion written for the harness). "
        "Entry points: Spline1D.eval (scalar, array), eval_vector, BSplines[i], Spline2D.eval (scalar, tensor "
        "grid), eval_vector, the pairwise *_eval_spline_2d_vector kernels, the local basis arrays (>= -eps, sum "
        "1, derivative sum 0), uniform-cubic vs general path on the same data, periodic end values/slopes. "
        "Non-trivial = a point on a breakpoint / end point / one ulp inside or der != 0, with non-constant "
        "coefficients; distinct = distinct case digest.")
ASSUMPTIONS = ["x in [a,b] (callers wrap/clip before evaluating)",
               "first derivative of a degree-1 spline at a breakpoint: either one-sided value accepted",
               "tolerance 64(p+1) eps sum|c| for values, times (p+1)/min_span for first derivatives"]

EPS = np.finfo(float).eps


def xcond(space, cmax, min_span, der=0):
    """
    Conditioning of spline evaluation with respect to the coordinates themselves: moving x (or the
    breakpoints) by one ulp of max|x| changes S by about |S'| eps max|x|.  Needed whenever values at
    two different floating-point abscissae, or two representations of the same breakpoints, are compared.
    """
    b = space["breaks"]
    p = space["degree"]
    t = 32.0 * EPS * max(abs(b[0]), abs(b[-1]), 1e-300) * 2.0 * (p + 1) * cmax / min_span
    if der:
        t *= (p + 1) / min_span
    return t


def points_for(space, fracs):
    b = np.array(space["breaks"], dtype=float)
    pts = list(b)
    pts += [np.nextafter(x, b[-1]) for x in b[:-1]]
    pts += [np.nextafter(x, b[0]) for x in b[1:]]
    pts += list(0.5 * (b[:-1] + b[1:]))
    pts += [b[0] + f * (b[-1] - b[0]) for f in fracs]
    pts = np.clip(np.array(pts, dtype=float), b[0], b[-1])
    return pts


@st.composite
def cases_1d(draw, tier):
    space = draw(gen.spline_space(max_degree=10))
    n = len(space["breaks"]) - 1 + space["degree"]
    ncell = len(space["breaks"]) - 1
    nfree = ncell if space["periodic"] else n
    c = draw(gen.coeff_values(nfree))
    if space["periodic"]:
        c = list(c) + list(c[:space["degree"]])
    fr = draw(st.lists(st.floats(0.0, 1.0), min_size=1, max_size=6))
    return {"space": space, "coeffs": c, "fracs": fr, "basis_index": draw(st.integers(0, nfree - 1))}


def _cmp(name, got, want, tol, xs, key):
    got = np.asarray(got, dtype=float)
    want = np.asarray(want, dtype=float)
    if got.shape != want.shape:
        raise Violation(key + ":shape", "%s: shape %s vs %s" % (name, got.shape, want.shape))
    err = np.abs(got - want)
    bad = ~(err <= tol)      # catches nan
    if bad.any():
        i = int(np.argmax(np.where(bad, np.nan_to_num(err, nan=np.inf), -1)))
        raise Violation(key, "%s: |got-want|=%.3e > tol %.3e at x=%r (got %r want %r); %d of %d points off"
                        % (name, err.flat[i], tol, np.asarray(xs).flat[i] if np.size(xs) == err.size else None,
                           got.flat[i], want.flat[i], int(bad.sum()), bad.size))


def pred_1d(case):
    from pygyro.splines.splines import Spline1D
    from pygyro.splines import spline_eval_funcs as NU
    from pygyro.splines import cubic_uniform_spline_eval_funcs as CU
    space = case["space"]
    p = space["degree"]
    with crash_is_violation("C07:build", "building the spline space"):
        basis = bspl.make_basis(space)
    ref = bspl.Ref(space, basis)
    c = np.array(case["coeffs"], dtype=float)
    pts = points_for(space, case["fracs"])
    b = np.array(space["breaks"])
    spl = Spline1D(basis)
    if spl.coeffs.shape != c.shape:
        raise Violation("C07:coeff-layout", "coefficient array has shape %s, expected %s" % (spl.coeffs.shape, c.shape))
    path = "cu" if basis.cubic_uniform else "nu"
    onbreak = np.isin(pts, b)
    # the same Spline1D object is given new coefficients in place and evaluated again (what every interpolation in a
    # time loop does): nothing remembered from the first evaluation may survive
    nfree = ref.ncells if space["periodic"] else ref.ncoef
    c_first = c
    c_again = -0.75 * c[:nfree][::-1] + 0.3
    if space["periodic"]:
        c_again = np.concatenate([c_again, c_again[:p]])
    held = []        # (what, returned array, copy made at once): a later call must not change an earlier result
    # strided output views only with the interpreted kernels (compiled extensions may legitimately insist on contiguous data)
    strided_ok = str(getattr(NU, "__file__", "")).endswith(".py") and str(getattr(CU, "__file__", "")).endswith(".py")
    for tag, c in (("", c_first), (":reused", c_again), (":reused", c_first)):
        spl.coeffs[:] = c
        for der in (0, 1):
            want = ref.eval(c, pts, der)
            tol = ref.tol(c, der)
            with crash_is_violation("C07:eval1d", "Spline1D evaluation (%s path, der=%d)" % (path, der)):
                got_arr = spl.eval(pts.copy(), der)
                got_vec = np.full(len(pts), np.nan)
                spl.eval_vector(pts.copy(), got_vec, der)
                got_sc = np.array([spl.eval(float(x), der) for x in pts])
                if strided_ok:
                    # in-place evaluation into a view that is not contiguous (every other element of a larger buffer)
                    big = np.full(2 * len(pts), np.nan)
                    spl.eval_vector(pts.copy(), big[::2], der)
                    got_str = big[::2].copy()
                    if not np.isnan(big[1::2]).all():
                        raise Violation("C07:%s:eval-vector:strided-overrun" % path, "eval_vector wrote outside the output view")
            if strided_ok and not np.array_equal(got_str, got_vec, equal_nan=True):
                raise Violation("C07:%s:eval-vector:strided%s" % (path, tag), "eval_vector into a strided output view differs from "
                                "eval_vector into a contiguous array (der=%d): %r vs %r" % (der, got_str[:3], got_vec[:3]))
            held.append(("Spline1D.eval(array, der=%d)" % der, got_arr, np.array(got_arr, copy=True)))
            if p == 1 and der == 1:
                left = ref.left_derivative(c, pts)
                for name, got in (("eval(array)", got_arr), ("eval_vector", got_vec), ("eval(scalar)", got_sc)):
                    ok = (np.abs(got - want) <= tol) | (onbreak & (np.abs(got - left) <= tol))
                    if not ok.all():
                        i = int(np.argmin(ok))
                        raise Violation("C07:%s:der1-deg1%s" % (path, tag), "%s der=1 degree 1 at x=%r: got %r, one-sided values %r / %r"
                                        % (name, pts[i], got[i], left[i], want[i]))
            else:
                _cmp("Spline1D.eval(array) der=%d" % der, got_arr, want, tol, pts, "C07:%s:eval-array:der%d%s" % (path, der, tag))
                _cmp("Spline1D.eval_vector der=%d" % der, got_vec, want, tol, pts, "C07:%s:eval-vector:der%d%s" % (path, der, tag))
                _cmp("Spline1D.eval(scalar) der=%d" % der, got_sc, want, tol, pts, "C07:%s:eval-scalar:der%d%s" % (path, der, tag))
    for what, arr, snap in held:
        if not np.array_equal(arr, snap, equal_nan=True):
            raise Violation("C07:%s:result-overwritten" % path, "the array returned by %s was changed by a later evaluation "
                            "(results share storage)" % what)
    # ---- BSplines[i] is the i-th basis function ----------------------------------------------
    j = case["basis_index"]
    with crash_is_violation("C07:getitem", "BSplines[i]"):
        bj = basis[j]
        got = bj.eval(pts.copy())
    e = np.zeros(ref.ncoef)
    e[j] = 1.0
    if space["periodic"]:
        e[ref.ncells:] = e[:p]
    _cmp("BSplines[%d]" % j, got, ref.eval(e, pts), ref.tol(e), pts, "C07:%s:basis-function" % path)
    # ---- local basis arrays --------------------------------------------------------------------
    for x in pts:
        vals = np.empty(p + 1)
        ders = np.empty(p + 1)
        with crash_is_violation("C07:basis-arrays", "local basis arrays at x=%r" % x):
            if basis.cubic_uniform:
                xmin, xmax, dx, nc = basis.knots
                span, off = CU.cu_find_span(xmin, xmax, dx, float(x), int(nc))
                CU.cu_basis_funs(span, off, vals)
                CU.cu_basis_funs_1st_der(span, off, dx, ders)
                scale = 1.0 / dx
            else:
                span = NU.nu_find_span(basis.knots, p, float(x))
                NU.nu_basis_funs(basis.knots, p, float(x), span, vals)
                NU.nu_basis_funs_1st_der(basis.knots, p, float(x), span, ders)
                scale = 1.0 / ref.min_span
        if not (0 <= span - p and span < len(c)):
            raise Violation("C07:%s:span" % path, "span %d out of range at x=%r" % (span, x))
        if (vals < -8 * EPS).any() or abs(vals.sum() - 1.0) > 32 * (p + 1) * EPS:
            raise Violation("C07:%s:partition-of-unity" % path, "basis values %s at x=%r (sum-1=%.2e)" % (vals, x, vals.sum() - 1))
        if abs(ders.sum()) > 64 * (p + 1) ** 2 * EPS * scale:
            raise Violation("C07:%s:derivative-sum" % path, "basis derivatives sum to %.3e at x=%r" % (ders.sum(), x))
    # ---- periodic: equal values and slopes at both ends ----------------------------------------
    if space["periodic"]:
        va, vb = spl.eval(float(b[0])), spl.eval(float(b[-1]))
        cm = float(np.abs(c).max())
        if abs(va - vb) > 2 * ref.tol(c) + xcond(space, cm, ref.min_span):
            raise Violation("C07:%s:periodic-ends" % path, "S(a)=%r, S(b)=%r" % (va, vb))
        if p >= 2:
            da, db = spl.eval(float(b[0]), 1), spl.eval(float(b[-1]), 1)
            if abs(da - db) > 2 * ref.tol(c, 1) + xcond(space, cm, ref.min_span, 1):
                raise Violation("C07:%s:periodic-slopes" % path, "S'(a)=%r, S'(b)=%r" % (da, db))
    # ---- cross-check the reference itself (interior points only) -------------------------------
    if not basis.cubic_uniform and p <= 4 and len(b) <= 8:
        xs = pts[(pts > b[0]) & (pts < b[-1])][:6]
        cm = bspl.cox_matrix(ref.t, p, ref.ncoef, xs)
        sm = ref.basis_matrix(xs)
        if np.abs(cm - sm).max() > 64 * (p + 1) * EPS:
            raise RuntimeError("oracle self-check failed: scipy vs Cox-de Boor differ by %.3e" % np.abs(cm - sm).max())
    nonconst = float(np.ptp(c)) > 0
    return {"nontrivial": nonconst, "labels": [path, "periodic" if space["periodic"] else "clamped",
                                              "deg%d" % p, "uniform" if space["uniform_breaks"] else "nonuniform"],
            "evals": 18 * len(pts)}


# ------------------------------------------------------------------------------------------------
@st.composite
def cases_2d(draw, tier):
    cu = draw(st.booleans())
    s1 = draw(gen.spline_space(max_degree=5, max_cells=7, cubic_uniform=cu))
    s2 = draw(gen.spline_space(max_degree=5, max_cells=7, cubic_uniform=cu))
    n1 = len(s1["breaks"]) - 1 + s1["degree"]
    n2 = len(s2["breaks"]) - 1 + s2["degree"]
    f1 = (len(s1["breaks"]) - 1) if s1["periodic"] else n1
    f2 = (len(s2["breaks"]) - 1) if s2["periodic"] else n2
    flat = draw(gen.coeff_values(f1 * f2))
    fr = draw(st.lists(st.tuples(st.floats(0, 1), st.floats(0, 1)), min_size=1, max_size=4))
    return {"s1": s1, "s2": s2, "coeffs": flat, "fracs": [list(x) for x in fr]}


def pred_2d(case):
    from pygyro.splines.splines import Spline2D
    from pygyro.splines import spline_eval_funcs as NU
    from pygyro.splines import cubic_uniform_spline_eval_funcs as CU
    s1, s2 = case["s1"], case["s2"]
    with crash_is_violation("C07:build", "building the spline spaces"):
        b1, b2 = bspl.make_basis(s1), bspl.make_basis(s2)
        spl = Spline2D(b1, b2)
    r1, r2 = bspl.Ref(s1, b1), bspl.Ref(s2, b2)
    f1 = r1.ncells if s1["periodic"] else r1.ncoef
    f2 = r2.ncells if s2["periodic"] else r2.ncoef
    def wrapped(A):
        if s2["periodic"]:
            A = np.concatenate([A, A[:, :r2.p]], axis=1)
        if s1["periodic"]:
            A = np.concatenate([A, A[:r1.p, :]], axis=0)
        return A
    base = np.array(case["coeffs"], dtype=float).reshape(f1, f2)
    C_first = wrapped(base)
    C_again = wrapped(-0.75 * base[::-1, ::-1] + 0.3)
    if spl.coeffs.shape != C_first.shape:
        raise Violation("C07:coeff-layout", "2-D coefficient array has shape %s, expected %s" % (spl.coeffs.shape, C_first.shape))
    fr1 = [f[0] for f in case["fracs"]]
    fr2 = [f[1] for f in case["fracs"]]
    x1 = points_for(s1, fr1)
    x2 = points_for(s2, fr2)
    # keep the tensor grid small: boundary-ish points first
    x1 = np.concatenate([x1[:3], x1[-(len(fr1) + 3):]])
    x2 = np.concatenate([x2[:3], x2[-(len(fr2) + 3):]])
    path = "cu" if b1.cubic_uniform else "nu"
    # new coefficients are written in place into the same Spline2D object and it is evaluated again
    held = []
    for tag, C in (("", C_first), (":reused", C_again), (":reused", C_first)):
        spl.coeffs[:] = C
        s = float(np.abs(C).sum()) + 1e-300
        for d1 in (0, 1):
            for d2 in (0, 1):
                if (s1["degree"] == 1 and d1) or (s2["degree"] == 1 and d2):
                    # one-sided ambiguity on breakpoints: use strictly interior evaluation points
                    y1 = x1[~np.isin(x1, s1["breaks"])] if d1 and s1["degree"] == 1 else x1
                    y2 = x2[~np.isin(x2, s2["breaks"])] if d2 and s2["degree"] == 1 else x2
                    if len(y1) == 0 or len(y2) == 0:
                        continue
                else:
                    y1, y2 = x1, x2
                want = r1.basis_matrix(y1, d1) @ C @ r2.basis_matrix(y2, d2).T
                tol = 64.0 * (r1.p + 1) * (r2.p + 1) * EPS * s
                if d1:
                    tol *= (r1.p + 1) / r1.min_span
                if d2:
                    tol *= (r2.p + 1) / r2.min_span
                key = "C07:%s:2d:der%d%d%s" % (path, d1, d2, tag)
                with crash_is_violation("C07:eval2d", "Spline2D evaluation (%s, der %d,%d)" % (path, d1, d2)):
                    got_grid = spl.eval(y1.copy(), y2.copy(), d1, d2)
                    held.append(("Spline2D.eval(grid, der=(%d,%d))" % (d1, d2), got_grid, np.array(got_grid, copy=True)))
                    got_vec = np.full((len(y1), len(y2)), np.nan)
                    spl.eval_vector(y1.copy(), y2.copy(), got_vec, d1, d2)
                    got_sc = np.array([[spl.eval(float(a), float(b), d1, d2) for b in y2] for a in y1])
                    # pairwise kernels
                    m = min(len(y1), len(y2))
                    z = np.full(m, np.nan)
                    kern = CU.cu_eval_spline_2d_vector if b1.cubic_uniform else NU.nu_eval_spline_2d_vector
                    kern(y1[:m].copy(), y2[:m].copy(), b1.knots, b1.degree, b2.knots, b2.degree, spl.coeffs, z, d1, d2)
                _cmp("Spline2D.eval(grid) der=(%d,%d)" % (d1, d2), got_grid, want, tol, None, key + ":grid")
                _cmp("Spline2D.eval_vector der=(%d,%d)" % (d1, d2), got_vec, want, tol, None, key + ":vector")
                _cmp("Spline2D.eval(scalar) der=(%d,%d)" % (d1, d2), got_sc, want, tol, None, key + ":scalar")
                _cmp("eval_spline_2d_vector der=(%d,%d)" % (d1, d2), z, np.diag(want[:m, :m]), tol, None, key + ":pairwise")
    for what, arr, snap in held:
        if not np.array_equal(arr, snap, equal_nan=True):
            raise Violation("C07:%s:2d:result-overwritten" % path, "the array returned by %s was changed by a later evaluation "
                            "(results share storage)" % what)
    return {"nontrivial": float(np.ptp(C)) > 0,
            "labels": [path, "%s-%s" % ("per" if s1["periodic"] else "cl", "per" if s2["periodic"] else "cl")],
            "evals": 48 * len(x1) * len(x2)}


# ------------------------------------------------------------------------------------------------
@st.composite
def cases_paths(draw, tier):
    space = draw(gen.spline_space(cubic_uniform=True, min_cells=1, max_cells=12))
    n = len(space["breaks"]) - 1
    nb = n if space["periodic"] else n + 3
    data = draw(st.lists(st.floats(-1e3, 1e3), min_size=nb, max_size=nb))
    fr = draw(st.lists(st.floats(0, 1), min_size=1, max_size=6))
    return {"space": space, "data": data, "fracs": fr}


def pred_paths(case):
    """Uniform-cubic fast path and general path give the same function for the same data."""
    from pygyro.splines.splines import Spline1D
    from pygyro.splines.spline_interpolators import SplineInterpolator1D
    sp_cu = dict(case["space"])
    sp_nu = dict(case["space"])
    sp_nu["uniform"] = False
    with crash_is_violation("C07:build", "building the spline spaces"):
        bc, bn = bspl.make_basis(sp_cu), bspl.make_basis(sp_nu)
    if not bc.cubic_uniform or bn.cubic_uniform:
        raise RuntimeError("generator error: expected one cu and one general basis")
    gc, gn = np.asarray(bc.greville), np.asarray(bn.greville)
    L = sp_cu["breaks"][-1] - sp_cu["breaks"][0]
    dist = np.abs(gc - gn) if gc.shape == gn.shape else None
    if dist is not None and sp_cu["periodic"]:
        dist = np.minimum(dist, np.abs(L - dist))       # a and b are the same point of the circle
    if dist is None or dist.max() > 1e-12 * max(1.0, abs(sp_cu["breaks"][0]), L):
        raise Violation("C07:paths:interpolation-points", "uniform-cubic path interpolates at %s, general path at %s" % (gc, gn))
    data = np.array(case["data"])
    rn = bspl.Ref(sp_nu, bn)
    cref, cond, _ = bspl.interpolate(rn, gn, data)
    if cond > 1e10:
        from ..harness import Inconclusive
        raise Inconclusive("ill-conditioned collocation")
    with crash_is_violation("C07:paths", "interpolating on both paths"):
        sc, sn = Spline1D(bc), Spline1D(bn)
        SplineInterpolator1D(bc).compute_interpolant(data.copy(), sc)
        SplineInterpolator1D(bn).compute_interpolant(data.copy(), sn)
        pts = points_for(sp_cu, case["fracs"])
        vc, vn = sc.eval(pts.copy()), sn.eval(pts.copy())
        dc, dn = sc.eval(pts.copy(), 1), sn.eval(pts.copy(), 1)
    scale = float(np.abs(data).max()) + 1e-300
    cm = float(np.abs(cref).max())
    tol = 1e3 * EPS * cond * scale + xcond(sp_cu, cm, rn.min_span)
    tol1 = 1e3 * EPS * cond * scale * 4 / rn.min_span + xcond(sp_cu, cm, rn.min_span, 1)
    _cmp("cu vs general path (values)", vc, vn, tol, pts, "C07:paths:values")
    _cmp("cu path vs reference interpolant", vc, rn.eval(cref, pts), tol, pts, "C07:paths:values-vs-ref")
    _cmp("cu vs general path (slopes)", dc, dn, tol1, pts, "C07:paths:slopes")
    return {"nontrivial": float(np.ptp(data)) > 0 and len(sp_cu["breaks"]) > 3,
            "labels": ["periodic" if sp_cu["periodic"] else "clamped", "cells%d" % min(len(sp_cu["breaks"]) - 1, 5)],
            "evals": 2 * len(pts)}


SUBS = {"eval1d": Sub(pred_1d, strategy=cases_1d), "eval2d": Sub(pred_2d, strategy=cases_2d),
        "paths": Sub(pred_paths, strategy=cases_paths)}


def jobs(tier):
    n1, n2, n3 = (350, 60, 150) if tier == "quick" else (27000, 4500, 9000)
    return ([{"sub": "eval1d", "n": n1, "shard": i} for i in range(8)] +
            [{"sub": "eval2d", "n": n2, "shard": i} for i in range(5)] +
            [{"sub": "paths", "n": n3, "shard": i} for i in range(3)])
