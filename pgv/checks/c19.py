"""
C19 -- Accelerated kernels compute the same results as the pure-Python reference.
"""
import os
import pickle
import shutil
import subprocess
import tempfile
import warnings

import numpy as np
from hypothesis import strategies as st

from .. import bootstrap, kernels
from ..harness import Sub, Violation

PROPERTY = "C19"
HANG_SECONDS = 900.0
LINE_BUDGET = 20000000000
RULE = ("The working tree is copied to a scratch directory and built with the documented `make ACC=pycc LANGUAGE=fortran "
        "pycc` and with `LANGUAGE=c` (both tiers); a failing build is a violation.  Hypothesis generates batches of calls to every "
        "exported kernel of the five accelerated modules (degrees 1-5, clamped/periodic/uniform knots, evaluation points on "
        "cell edges / end points / one ulp inside, der in {0,1}^2, negative theta before the modulo, the three boundary "
        "modes, both time schemes, both nulBound values, float and complex rho); every batch is executed by the interpreted "
        "modules of /repo and, in a separate interpreter, by the compiled extensions; return values AND every array argument "
        "after the call are compared (1e-11 relative to a magnitude bound, integers exact).  The numba and pythran source "
        "copies are executed as plain Python behind stub numba modules on the same batches, and their function sets are "
        "compared by name.  Non-trivial = a batch containing a call that reaches a boundary branch (point on a knot / end "
        "point, foot outside the domain, der != 0).")
ASSUMPTIONS = ["numba and pythran are not installed: their source copies are checked as Python sources, not as generated code",
               "general_* kernels take function arguments and are exercised through their dispatching wrappers",
               "compiled and interpreted results may differ by floating-point reassociation (1e-11 relative)"]
TIMEOUT = {"quick": 3600, "thorough": 6 * 3600}

_BUILD = {"dir": None}
MAKE = "PATH=/venv/bin:$PATH make ACC=pycc LANGUAGE=%s PYTHON=%s pycc"


def _build(lang):
    d = tempfile.mkdtemp(prefix="pgv-build-")
    dst = os.path.join(d, "repo")
    shutil.copytree(bootstrap.REPO, dst, symlinks=True, ignore=shutil.ignore_patterns(".git", "__pycache__", "*.pyc", "*.so", "*.o", "*.mod",
                                                                        "__pyccel__", "pygyro.egg-info"))
    r = subprocess.run(MAKE % (lang, bootstrap.PYTHON), shell=True, cwd=dst, capture_output=True, text=True)
    return d, dst, r


def prepare_run(tier):
    out = {"env": {}, "violations": [], "errors": []}
    if shutil.which("make") is None or shutil.which("gfortran") is None:
        out["errors"].append("build tools missing (make/gfortran)")
        return out
    dirs = []
    # both documented back ends in both tiers (built side by side)
    from concurrent.futures import ThreadPoolExecutor
    langs = ["fortran", "c"]
    with ThreadPoolExecutor(max_workers=2) as ex:
        built = list(ex.map(_build, langs))
    for lang, (d, dst, r) in zip(langs, built):
        dirs.append(d)
        sos = [f for root, _, fs in os.walk(dst) for f in fs if f.endswith(".so")]
        if r.returncode != 0 or len(sos) < 5:
            out["violations"].append({"sub": "build", "key": "C19:build-fails:" + lang,
                                      "case": {"language": lang, "cmd": MAKE % (lang, bootstrap.PYTHON)},
                                      "failure": "documented build failed (exit %d, %d extensions): %s"
                                                 % (r.returncode, len(sos), (r.stdout + r.stderr)[-1500:])})
        else:
            out["env"]["PGV_C19_BUILD_" + lang.upper()] = dst
    _BUILD["dirs"] = dirs
    return out


def finish_run():
    for d in _BUILD.get("dirs") or []:
        shutil.rmtree(d, ignore_errors=True)


def init_worker(tier):
    warnings.simplefilter("ignore")


@st.composite
def cases(draw, tier):
    return {"seed": draw(st.integers(0, 2 ** 31 - 1)), "n": draw(st.integers(3, 8))}


def _mag(x):
    if isinstance(x, np.ndarray):
        return float(np.abs(x[np.isfinite(x)]).max()) if x.size and np.isfinite(x).any() else 0.0
    if isinstance(x, (tuple, list)):
        return max([_mag(v) for v in x] + [0.0])
    if isinstance(x, (int, float, complex, np.number)):
        return abs(x)
    return 0.0


def _same(a, b, bound):
    """None if equal up to reassociation, else a description."""
    if isinstance(a, (tuple, list)) or isinstance(b, (tuple, list)):
        if not isinstance(a, (tuple, list)) or not isinstance(b, (tuple, list)) or len(a) != len(b):
            return "different structure: %r vs %r" % (a, b)
        for x, y in zip(a, b):
            d = _same(x, y, bound)
            if d:
                return d
        return None
    if a is None or b is None:
        return None if a is None and b is None else "%r vs %r" % (a, b)
    if isinstance(a, (bool, int, np.integer)) and isinstance(b, (bool, int, np.integer)):
        return None if int(a) == int(b) else "integer results %r vs %r" % (a, b)
    a_, b_ = np.asarray(a), np.asarray(b)
    if a_.shape != b_.shape:
        return "shapes %s vs %s" % (a_.shape, b_.shape)
    if np.issubdtype(a_.dtype, np.integer) and np.issubdtype(b_.dtype, np.integer):
        return None if np.array_equal(a_, b_) else "integer arrays differ"
    tol = 1e-11 * (bound + 1e-300)
    d = np.abs(a_.astype(complex) - b_.astype(complex))
    if not np.all((d <= tol) | (np.isnan(a_.astype(complex)) & np.isnan(b_.astype(complex)))):
        i = int(np.argmax(np.nan_to_num(d, nan=np.inf)))
        return "values differ by %.3e (tol %.3e): %r vs %r" % (float(np.nanmax(d)), tol, a_.flat[i], b_.flat[i])
    return None


def compare(calls, ref, other, what):
    nb = 0
    for (key, fn, args, outs), r, o in zip(calls, ref, other):
        tag = "%s.%s" % (kernels.MODULES[key].split(".")[-1], fn)
        if r[0] != "ok":
            # every call of the catalogue is valid and returns on the pinned tree, so the interpreted source under test
            # has changed.  Both sides failing alike is agreement (C07..C13 decide what the kernels should compute); the
            # accelerated side returning where the interpreted one fails is a divergence
            if o[0] == "ok":
                raise Violation("C19:%s:reference-fails:%s" % (what, fn), "%s: %s returns normally, the interpreted module fails: %s"
                                % (what, tag, r[1]))
            continue
        if o[0] == "missing-function":
            continue          # function sets are compared by the "exports" sub-check
        if o[0] == "skipped-hang":
            continue          # see _run_external: elapsed time is never a verdict
        if o[0] == "missing-module":
            raise Violation("C19:%s:import" % what, "%s: module for %s cannot be loaded: %s" % (what, tag, o[1]))
        if o[0] == "nontermination":
            raise Violation("C19:%s:nontermination:%s" % (what, fn), "%s: %s does not return (%s); the interpreted module returns normally"
                            % (what, tag, o[1]))
        if o[0] == "error":
            raise Violation("C19:%s:raises:%s" % (what, fn), "%s: %s raised %s (the interpreted module returns normally)" % (what, tag, o[1]))
        bound = max(_mag(r[1]), max([_mag(x) for x in r[2]] + [0.0]), max([_mag(a) for a in args] + [0.0]), 1e-300)
        d = _same(r[1], o[1], bound)
        if d:
            raise Violation("C19:%s:result:%s" % (what, fn), "%s vs interpreted, %s return value: %s" % (what, tag, d))
        for k, (x, y) in enumerate(zip(r[2], o[2])):
            d = _same(x, y, bound)
            if d:
                raise Violation("C19:%s:inplace:%s" % (what, fn), "%s vs interpreted, %s in-place argument %d: %s" % (what, tag, outs[k], d))
        for k, (x, y) in enumerate(zip(r[3], o[3])):
            d = _same(x, y, bound)
            if d:
                raise Violation("C19:%s:input-modified:%s" % (what, fn), "%s vs interpreted, %s: an input array differs after the call: %s"
                                % (what, tag, d))
        nb += 1
    return nb


def _run_external(calls, repo, flavour, tmp):
    inp, outp = os.path.join(tmp, "in.pkl"), os.path.join(tmp, "out_%s.pkl" % flavour)
    if not os.path.exists(inp):
        with open(inp, "wb") as f:
            pickle.dump(calls, f)
    env = bootstrap.worker_env({"VERIF_REPO": repo})
    cmd = [bootstrap.PYTHON, "-m", "pgv.kernels", "--run", inp, outp, "--flavour", flavour]
    skip = []
    while True:
        try:
            r = subprocess.run(cmd + (["--skip", ",".join(str(i) for i in skip)] if skip else []), cwd=bootstrap.VERIF, env=env,
                               capture_output=True, text=True, timeout=90)
            break
        except subprocess.TimeoutExpired:
            pass
        # never a verdict by itself.  Interpreted flavours: repeat under a deterministic line-event budget per call.
        # Compiled flavours (a hang inside compiled code cannot be counted): leave out the call the run was in and run the
        # rest of the batch, whose results are compared as usual; the value comparisons decide, the hang itself does not.
        if flavour == "ref":
            idx = None
            if os.path.exists(outp + ".progress"):
                with open(outp + ".progress") as pf:
                    idx = int(pf.read().split()[0])
            if idx is None or idx in skip or len(skip) >= 4:
                raise RuntimeError("kernel runner (%s) does not finish even with calls %s left out (inconclusive)" % (flavour, skip))
            skip.append(idx)
            continue
        try:
            r = subprocess.run(cmd + ["--budget", "30000000"], cwd=bootstrap.VERIF, env=env, capture_output=True, text=True,
                               timeout=3600)
            break
        except subprocess.TimeoutExpired:
            raise RuntimeError("kernel runner (%s) did not finish even under the line budget (inconclusive)" % flavour)
    if r.returncode in (-4, -6, -7, -8, -11):
        # the interpreter running this flavour was killed by SIGILL/SIGABRT/SIGBUS/SIGFPE/SIGSEGV while the interpreted
        # reference executed the same calls: the accelerated code does not compute the same thing (it does not compute)
        where = "?"
        if os.path.exists(outp + ".progress"):
            with open(outp + ".progress") as pf:
                where = pf.read().strip()
        fn = where.split()[-1] if where != "?" else "?"
        raise Violation("C19:process-crash:%s" % fn, "the interpreter running the %s kernels of %s died with signal %d during call %s "
                        "(%d calls, all executed by the interpreted reference); stderr tail: %s"
                        % (flavour if flavour != "ref" else "compiled", repo, -r.returncode, where, len(calls),
                           (r.stderr or "")[-300:]))
    if r.returncode != 0 or not os.path.exists(outp):
        raise RuntimeError("kernel runner (%s, %s) failed: %s" % (flavour, repo, (r.stdout + r.stderr)[-1500:]))
    with open(outp, "rb") as f:
        return pickle.load(f)


def predicate(c):
    bootstrap.prepare()
    calls = kernels.gen_calls(c["seed"], c["n"])
    mods = kernels.load_modules("ref", bootstrap.REPO)
    for k, m in mods.items():
        if not m.__file__.endswith(".py"):
            raise RuntimeError("reference module %s is not the interpreted source: %s" % (k, m.__file__))
    ref = kernels.run_calls(calls, mods)
    tmp = tempfile.mkdtemp(prefix="pgv-c19-")
    nb = 0
    labels = []
    try:
        for lang in ("FORTRAN", "C"):
            b = os.environ.get("PGV_C19_BUILD_" + lang)
            if not b:
                continue
            out = _run_external(calls, b, "ref", tmp + "/" if False else tmp)
            os.replace(os.path.join(tmp, "out_ref.pkl"), os.path.join(tmp, "out_%s.pkl" % lang))
            for k, fpath in out["files"].items():
                if not str(fpath).endswith(".so"):
                    raise Violation("C19:build-not-used", "module %s of the %s build is %s, not a compiled extension" % (k, lang, fpath))
            for k, names in out["exported"].items():
                mine = sorted(n for n in dir(mods[k]) if not n.startswith("_") and callable(getattr(mods[k], n))
                              and getattr(getattr(mods[k], n), "__module__", "") == mods[k].__name__)
                missing = [n for n in mine if n not in names]
                if missing:
                    raise Violation("C19:pyccel-%s:missing-exports" % lang.lower(), "compiled %s lacks %s" % (kernels.MODULES[k], missing))
            nb += compare(calls, ref, out["results"], "pyccel-" + lang.lower())
            labels.append("pyccel-" + lang.lower())
        for flavour in ("numba", "pythran"):
            out = _run_external(calls, bootstrap.REPO, flavour, tmp)
            nb += compare(calls, ref, out["results"], flavour + "-source")
            labels.append(flavour + "-source")
    finally:
        shutil.rmtree(tmp, ignore_errors=True)
    fns = sorted({"%s.%s" % (k, fn) for k, fn, _, _ in calls})
    return {"nontrivial": True, "labels": labels + fns, "evals": nb}


def exports_enum(tier, shard, nshards):
    if shard == 0:
        yield {"what": "function sets"}


def exports_pred(c):
    """Every flavour defines (at least) the functions of the interpreted reference modules."""
    bootstrap.prepare()
    mods = kernels.load_modules("ref", bootstrap.REPO)
    ref = {k: sorted(n for n in dir(m) if not n.startswith("_") and callable(getattr(m, n))
                     and getattr(getattr(m, n), "__module__", "") == m.__name__) for k, m in mods.items()}
    tmp = tempfile.mkdtemp(prefix="pgv-c19-")
    n = 0
    try:
        todo = [("numba-source", bootstrap.REPO, "numba"), ("pythran-source", bootstrap.REPO, "pythran")]
        for lang in ("FORTRAN", "C"):
            if os.environ.get("PGV_C19_BUILD_" + lang):
                todo.append(("pyccel-" + lang.lower(), os.environ["PGV_C19_BUILD_" + lang], "ref"))
        for what, repo, flavour in todo:
            if os.path.exists(os.path.join(tmp, "in.pkl")):
                os.remove(os.path.join(tmp, "in.pkl"))
            out = _run_external([], repo, flavour, tmp)
            for k, names in ref.items():
                if k not in out["exported"]:
                    raise Violation("C19:%s:import:%s" % (what, k), "%s: the copy of %s cannot be imported" % (what, kernels.MODULES[k]))
                have = out["exported"][k]
                missing = [x for x in names if x not in have and not (what.startswith("pyccel") and x.startswith("general_"))]
                n += 1
                if missing:
                    raise Violation("C19:%s:missing:%s:%s" % (what, kernels.MODULES[k].split(".")[-1], ",".join(missing)),
                                    "%s of %s does not define %s" % (what, kernels.MODULES[k], missing))
    finally:
        shutil.rmtree(tmp, ignore_errors=True)
    return {"evals": n, "nontrivial_count": n, "sample": {"compared": "function sets of 5 modules x flavours"}}


SUBS = {"kernels": Sub(predicate, strategy=cases), "exports": Sub(exports_pred, enumerate=exports_enum)}


def jobs(tier):
    n = 12 if tier == "quick" else 400
    return [{"sub": "kernels", "n": n, "shard": i} for i in range(15)] + [{"sub": "exports", "shard": 0, "nshards": 1}]
