"""
C13 -- Parallel gradient is the field-aligned finite-difference derivative.
"""
import math

import numpy as np
from hypothesis import strategies as st

from ..harness import interpreted_kernels, Sub, Violation, Inconclusive, crash_is_violation
from ..oracles import bspl, advect

PROPERTY = "C13"
HANG_SECONDS = 60.0
LINE_BUDGET = 1000000000
RULE = ("Hypothesis-generated cases: order 2-6, nz order+1..16, ntheta 4-12 (uniform-cubic or general periodic theta "
        "splines), rotational transform 0 / 0.8 / generated, local radial ranges taken from real Layouts of several "
        "rank coordinates (block starts > 0), arbitrary potentials.  Oracle = independent formula b_z(r)/dz sum_l w_l "
        "S_{k+l}(theta_j + iota dz l/R0) with Lagrange-derivative weights on the stencil -floor(order/2)+(0..order) and "
        "b_z of the GLOBAL radius of the local row; metamorphic: linear, zero on constants, commutes with z-roll, "
        "iota=0 => plain periodic finite differences of the nodal values, zero on fields constant along field lines "
        "(whole-cell twist); observed convergence order >= order-0.7 on smooth modes (nz=16,32,64).  "
        "Non-trivial = iota != 0 or a stencil crossing the periodic seam, on a local row with start > 0.")
ASSUMPTIONS = ["uniform z grid; theta break points equidistant except in one general-path case in five (field-line identities only on equidistant theta grids)", "rotational transform constant in r"]

EPS = np.finfo(float).eps
TWO_PI = 2 * np.pi


@st.composite
def cases(draw, tier):
    order = draw(st.integers(2, 6))
    nz = draw(st.integers(order + 1, 16))
    cu = draw(st.booleans())
    deg = 3 if cu else draw(st.integers(1, 5))
    ntheta = draw(st.integers(max(3, deg), 12))         # periodic spaces admit cells == degree
    nr = draw(st.integers(2, 7))
    p0 = draw(st.integers(1, min(nr, 4)))
    coord = draw(st.integers(0, p0 - 1))
    R0 = draw(st.sampled_from([1.0, 10.0, 239.8081535]))
    twist = draw(st.integers(0, 4)) == 0
    if twist:
        g = math.gcd(ntheta, nz)
        k = (ntheta // g) * draw(st.sampled_from([1, -1, 2]))
        dz = TWO_PI * R0 / nz
        iota = k * (TWO_PI / ntheta) * R0 / dz
    else:
        k = 0
        iota = draw(st.one_of(st.sampled_from([0.0, 0.0, 0.8, -0.8]), st.floats(-2, 2)))
    modes = draw(st.lists(st.tuples(st.integers(0, 3), st.integers(-2, 2), st.floats(-2, 2), st.floats(0, 6.3)),
                          min_size=0, max_size=3))
    return {"order": order, "nz": nz, "cu": cu, "deg": deg, "ntheta": ntheta, "nr": nr, "p0": p0, "coord": coord,
            "R0": R0, "iota": iota, "twist_cells": k, "modes": [list(m) for m in modes],
            "noise": draw(st.sampled_from([0.0, 0.1, 1.0])), "seed": draw(st.integers(0, 2 ** 16)),
            "const": draw(st.floats(-3, 3)), "roll": draw(st.integers(1, 15)), "alpha": draw(st.floats(-2, 2)),
            "rows": draw(st.lists(st.floats(0, 0.999), min_size=1, max_size=2)),
            # a radial grid of integer dtype (upstream's own advection tests build eta_grid[0] = np.array([1]))
            "int_r": draw(st.integers(0, 4)) == 0,
            # theta break points that are not equidistant (general spline path only)
            "theta_w": (draw(st.lists(st.floats(0.3, 1.0), min_size=ntheta, max_size=ntheta))
                        if (not cu and draw(st.integers(0, 4)) == 0) else None)}


def build(case, nz=None, ntheta=None):
    from pygyro.model.layout import Layout
    from pygyro.advection.advection import ParallelGradient
    from pygyro.initialisation.constants import Constants
    nz = nz or case["nz"]
    ntheta = ntheta or case["ntheta"]
    space = {"degree": case["deg"], "periodic": True, "uniform": bool(case["cu"]),
             "breaks": [float(x) for x in np.linspace(0, TWO_PI, ntheta + 1)], "uniform_breaks": True}
    if case.get("theta_w") and len(case["theta_w"]) == ntheta:
        w = np.asarray(case["theta_w"], dtype=float)
        br = np.concatenate([[0.0], np.cumsum(w) / w.sum() * TWO_PI])
        br[-1] = TWO_PI
        space = dict(space, breaks=[float(x) for x in br], uniform_breaks=False)
    basis = bspl.make_basis(space)
    theta = np.asarray(basis.greville, dtype=float)
    dz = TWO_PI * case["R0"] / nz
    zgrid = dz * np.arange(nz)
    rgrid = np.arange(1, case["nr"] + 1) if case.get("int_r") else np.linspace(0.1, 14.5, case["nr"])
    eta = [rgrid, theta, zgrid]
    layout = Layout("v_parallel_1d", [case["p0"]], [0, 2, 1], eta, [case["coord"]])
    consts = Constants()
    consts.iotaVal = case["iota"]
    consts.R0 = case["R0"]
    pg = ParallelGradient(basis, eta, layout, consts, case["order"])
    return space, basis, theta, zgrid, rgrid, layout, pg, dz


def field(case, theta, zgrid, Lz, shift=0):
    f = np.full((len(zgrid), len(theta)), case["const"])
    for m, n, amp, ph in case["modes"]:
        f = f + amp * np.cos(m * theta[None, :] + n * TWO_PI * zgrid[:, None] / Lz + ph)
    if case["noise"]:
        f = f + case["noise"] * np.random.default_rng(case["seed"] + shift).standard_normal(f.shape)
    return f


def predicate(case):
    with crash_is_violation("C13:build", "building ParallelGradient"):
        space, basis, theta, zgrid, rgrid, layout, pg, dz = build(case)
    tint = advect.ThetaInterp(space, basis, theta)
    if tint.cond > 1e8:
        raise Inconclusive("ill-conditioned theta collocation")
    nz, order = case["nz"], case["order"]
    Lz = dz * nz
    start, end = int(layout.starts[0]), int(layout.ends[0])
    nloc = end - start
    phi = field(case, theta, zgrid, Lz)
    psi = field(case, theta, zgrid, Lz, 5) * 0.5 - 1.0
    scale = float(np.abs(phi).max()) + 1e-300
    path = "cu" if basis.cubic_uniform else "nu"
    labels = [path, "order%d" % order, "iota0" if case["iota"] == 0 else "iota!=0"]
    nontriv = False
    nev = 0
    for fr in case["rows"]:
        i = min(int(fr * nloc), nloc - 1)
        r = rgrid[start + i]
        want, st_, w = advect.parallel_gradient_ref(phi, theta, dz, r, case["iota"], case["R0"], order, tint)
        amp = float(np.abs(w).sum()) * advect.b_z(r, case["iota"], case["R0"]) / dz
        tol = 1e3 * EPS * tint.cond * scale * amp
        with crash_is_violation("C13:gradient", "ParallelGradient.parallel_gradient"):
            got = np.full_like(phi, np.nan)
            ret = pg.parallel_gradient(phi.copy(), i, got)
        nev += 1
        err = np.abs(got - want).max()
        if not err <= tol:
            raise Violation("C13:%s:formula" % path, "local row %d (global radius index %d, r=%r): max |got-ref| = %.3e > tol %.3e "
                            "(order %d, nz %d, iota %r)" % (i, start + i, r, err, tol, order, nz, case["iota"]))
        if ret is not got and not np.array_equal(ret, got):
            raise Violation("C13:%s:return" % path, "returned array differs from the output argument")
        # potentials stored in another number type (interpreted kernels only: a compiled extension may insist on float64):
        # the same numbers, so the same gradient as for their float64 copy
        if interpreted_kernels():
            for what, alt in (("int64", np.rint(phi * 16 / scale).astype(np.int64)), ("float32", phi.astype(np.float32))):
                with crash_is_violation("C13:gradient", "ParallelGradient.parallel_gradient (%s potential)" % what):
                    ga = np.full(phi.shape, np.nan)
                    pg.parallel_gradient(alt, i, ga)
                    gb = np.full(phi.shape, np.nan)
                    pg.parallel_gradient(alt.astype(float), i, gb)
                sa = float(np.abs(alt).max()) + 1e-300
                if not (np.abs(ga - gb) <= 1e3 * EPS * tint.cond * sa * amp).all():
                    raise Violation("C13:%s:dtype" % path, "a potential stored as %s gives a gradient differing by %.3e from that of "
                                    "the same numbers stored as float64 (tol %.3e)"
                                    % (what, np.nanmax(np.abs(ga - gb)), 1e3 * EPS * tint.cond * sa * amp))
            # potential and result handed over as slices of larger blocks
            pblk = np.full(phi.shape + (2,), np.nan)
            pblk[..., 0] = phi
            oblk = np.full(phi.shape + (2,), np.nan)
            with crash_is_violation("C13:gradient", "ParallelGradient.parallel_gradient (arguments given as views)"):
                pg.parallel_gradient(pblk[..., 0], i, oblk[..., 1])
            if not (np.abs(oblk[..., 1] - got) <= 1e-12 * scale * amp).all() or not np.isnan(oblk[..., 0]).all():
                raise Violation("C13:%s:view" % path, "potential and result given as slices of larger blocks: max |view - contiguous| "
                                "= %.3e" % np.nanmax(np.abs(oblk[..., 1] - got)))
        # zero on constants
        cst = np.full_like(phi, 2.5)
        out = np.empty_like(phi)
        pg.parallel_gradient(cst, i, out)
        if np.abs(out).max() > 1e3 * EPS * tint.cond * 2.5 * amp:
            raise Violation("C13:%s:constants" % path, "gradient of a constant is %.3e" % np.abs(out).max())
        # linearity
        o2 = np.empty_like(phi)
        pg.parallel_gradient(psi.copy(), i, o2)
        o3 = np.empty_like(phi)
        pg.parallel_gradient(phi + case["alpha"] * psi, i, o3)
        s2 = scale + abs(case["alpha"]) * float(np.abs(psi).max())
        if np.abs(o3 - (got + case["alpha"] * o2)).max() > 2e3 * EPS * tint.cond * s2 * amp + 1e-290:
            raise Violation("C13:%s:linearity" % path, "grad(f+a g)-grad f-a grad g = %.3e" % np.abs(o3 - (got + case["alpha"] * o2)).max())
        # commutes with shifts in z
        k = case["roll"] % nz
        o4 = np.empty_like(phi)
        pg.parallel_gradient(np.roll(phi, k, axis=0), i, o4)
        if np.abs(o4 - np.roll(got, k, axis=0)).max() > 1e-13 * scale * amp + 0.01 * tol:
            raise Violation("C13:%s:z-shift" % path, "grad(roll f) != roll(grad f): %.3e" % np.abs(o4 - np.roll(got, k, axis=0)).max())
        if case["iota"] == 0:
            fd = sum(wl * np.roll(phi, -int(l), axis=0) for l, wl in zip(st_, w)) / dz
            if np.abs(got - fd).max() > tol:
                raise Violation("C13:%s:plain-fd" % path, "iota=0: differs from the plain periodic finite difference by %.3e"
                                % np.abs(got - fd).max())
        if case["twist_cells"] and not case.get("theta_w"):      # whole-cell theta shifts need an equidistant theta grid
            # field constant along field lines: phi[m, q] = G[(q - k m) mod ntheta]
            kk = case["twist_cells"]
            G = np.random.default_rng(case["seed"]).standard_normal(case["ntheta"])
            q = np.arange(case["ntheta"])
            fl = np.array([G[(q - kk * m) % case["ntheta"]] for m in range(nz)])
            o5 = np.empty_like(fl)
            pg.parallel_gradient(fl, i, o5)
            if np.abs(o5).max() > 1e3 * EPS * tint.cond * float(np.abs(G).max()) * amp:
                raise Violation("C13:%s:field-line-constant" % path, "gradient of a function constant along field lines is %.3e"
                                % np.abs(o5).max())
            labels.append("field-line-constant")
        if (case["iota"] != 0 or True) and start + i > 0 and float(np.ptp(phi)) > 0:
            nontriv = True
        if start > 0:
            labels.append("block-start>0")
    return {"nontrivial": nontriv, "labels": sorted(set(labels)), "evals": nev}


# ------------------------------------------------------------------------------------------------
@st.composite
def conv_cases(draw, tier):
    return {"order": draw(st.integers(2, 6)), "cu": draw(st.booleans()), "deg": 3, "ntheta": 8, "nr": 3, "p0": 1,
            "coord": 0, "R0": draw(st.sampled_from([1.0, 10.0])), "iota": 0.0, "n": draw(st.integers(1, 2)),
            "m": draw(st.integers(0, 2)), "phase": draw(st.floats(0, 6.3)), "nz": 16}


def conv_pred(case):
    errs = []
    for nz in (16, 32, 64):
        with crash_is_violation("C13:build", "building ParallelGradient"):
            space, basis, theta, zgrid, rgrid, layout, pg, dz = build(case, nz=nz)
        Lz = dz * nz
        kz = case["n"] * TWO_PI / Lz
        phi = np.cos(case["m"] * theta[None, :] + kz * zgrid[:, None] + case["phase"])
        exact = -kz * np.sin(case["m"] * theta[None, :] + kz * zgrid[:, None] + case["phase"])
        out = np.empty_like(phi)
        pg.parallel_gradient(phi, 1, out)
        errs.append(float(np.abs(out - exact).max()))
    rates = [math.log(errs[i] / errs[i + 1], 2) for i in range(2) if errs[i] > 1e-11 and errs[i + 1] > 1e-11]
    if rates and min(rates) < case["order"] - 0.7:
        raise Violation("C13:convergence", "order %d: errors %s give observed rates %s" % (case["order"], errs, rates))
    return {"nontrivial": bool(rates), "labels": ["order%d" % case["order"]], "evals": 3}


SUBS = {"gradient": Sub(predicate, strategy=cases), "convergence": Sub(conv_pred, strategy=conv_cases)}


def jobs(tier):
    n, nc = (70, 12) if tier == "quick" else (7000, 300)
    return ([{"sub": "gradient", "n": n, "shard": i} for i in range(14)] +
            [{"sub": "convergence", "n": nc, "shard": i} for i in range(2)])
