"""
C12 -- Poloidal advection traces 2nd-order ExB characteristics and interpolates at the foot.
"""
import math

import numpy as np
from hypothesis import strategies as st

from .. import gen
from ..harness import Sub, Violation, Inconclusive, crash_is_violation, run_world, interpreted_kernels
from ..oracles import bspl, advect

PROPERTY = "C12"
HANG_SECONDS = 400.0
LINE_BUDGET = 1000000000
RULE = ("Hypothesis-generated cases: ntheta 6-12 (periodic), nr 6-12 (clamped), uniform cubic or general degree <= 5, "
        "phi = generated combination of low modes g(r) cos(k theta + alpha), arbitrary f (modes + seeded noise), dt of "
        "either sign sized by a generated target displacement (sub-cell to several cells, feet leaving the radial domain "
        "included), v generated, both boundary modes, explicit (Heun) and implicit (fixed-point trapezoid) schemes, "
        "tol >= 1e-12.  Oracle = independent vectorised implementation (Heun with the documented zeroing of the predictor "
        "velocity outside the radial domain; implicit by a fixed point converged 1000x tighter, with clipping) on nodes "
        "whose predictor and final feet are farther than 1e-9 (rMax-rMin) from the radial boundary; exact solutions: "
        "constant phi => f unchanged, phi = omega r^2/2 => rigid rotation by omega dt/B0 (np.roll for whole cells); "
        "explicit vs implicit differ with observed order >= 2.5 in dt; the implicit iteration needs no more sweeps (+15) than "
        "the reference fixed point does for a 1000x tighter tolerance, dt being limited to an estimated contraction factor "
        "<= 0.63 (counted by wrapping the evaluation kernel).  Non-trivial = phi and f not constant and some "
        "foot displaced by more than a cell; distinct = distinct case digest.  (grid) PoloidalAdvection.gridStep and "
        "gridStep_SplinesUnchanged on the distributed distribution function of simulated worlds (poloidal layout, "
        "potential different on every z plane) vs the per-plane reference with each plane's own global (v, z); "
        "non-trivial = >= 2 z planes on some rank.")
ASSUMPTIONS = ["simulated MPI for the grid-level sub-check", "spline degree >= 2 in both directions (continuous drift; degree 1 puts every node on a derivative jump)",
               "nodes whose foot is within rounding distance of the radial boundary are excluded (counted in labels)",
               "termination is claimed only in the contraction regime 1.5 |dt|/2 Lip(a) <= 0.95 (estimated numerically), relative to the sweeps the reference iteration needs",
               "phi is passed as a Spline2D filled by pygyro's own 2-D interpolator; the reference reads the same "
               "coefficient array (C08 decides the interpolator)"]

EPS = np.finfo(float).eps
TWO_PI = 2 * np.pi


@st.composite
def base(draw, tier, max_n=12):
    cu = draw(st.booleans())
    # degree >= 2: the drift (derivatives of the phi spline) must be continuous for characteristics to be defined;
    # with degree 1 every grid node sits on a kink of phi
    d1 = 3 if cu else draw(st.integers(2, 5))
    d2 = 3 if cu else draw(st.integers(2, 5))
    ntheta = draw(st.integers(max(6, d1 + 1), max_n))
    nr = draw(st.integers(6, max_n))
    rmin = draw(st.sampled_from([0.1, 1.0]))
    rmax = draw(st.sampled_from([14.5, 2.5, 5.0]))
    return {"cu": cu, "d1": d1, "d2": d2, "ntheta": ntheta, "nr": nr, "rmin": rmin, "rmax": rmax,
            "B0": draw(st.sampled_from([1.0, 2.0])), "v": draw(st.floats(-7, 7)),
            "fmodes": [list(m) for m in draw(st.lists(st.tuples(st.integers(0, 3), st.integers(0, 2), st.floats(-2, 2),
                                                                st.floats(0, 6.3)), min_size=0, max_size=3))],
            "fconst": draw(st.floats(-2, 2)), "noise": draw(st.sampled_from([0.0, 0.1, 1.0])),
            "seed": draw(st.integers(0, 2 ** 16))}


@st.composite
def cases(draw, tier):
    c = draw(base(tier))
    c["phimodes"] = [list(m) for m in draw(st.lists(st.tuples(st.integers(0, 3), st.integers(0, 3), st.floats(-1, 1),
                                                              st.floats(0, 6.3)), min_size=1, max_size=3))]
    c["disp"] = draw(st.sampled_from([0.3, 0.9, 1.7, 3.2, 0.05])) * draw(st.sampled_from([-1.0, 1.0]))
    c["nul"] = draw(st.booleans())
    c["explicit"] = draw(st.sampled_from([True, True, False]))
    c["tol"] = draw(st.sampled_from([1e-10, 1e-12, 1e-8]))
    c["slow"] = draw(st.integers(0, 2)) == 0        # implicit scheme: a time step closer to the edge of the contraction regime
    if draw(st.integers(0, 2)) == 0:
        # a potential with few non-zero spline coefficients (a vortex localised in theta and r): the drift vanishes
        # identically on most of the grid, so the nodes do not all converge / leave the domain alike
        c["phiblock"] = [draw(st.integers(0, c["ntheta"] - 1)), draw(st.integers(0, c["nr"] - 1)),
                         draw(st.integers(1, 3)), draw(st.integers(1, 3))]
        if draw(st.booleans()):
            c["phimodes"] = []
    return c


def spaces(c):
    s1 = {"degree": c["d1"], "periodic": True, "uniform": bool(c["cu"]),
          "breaks": [float(x) for x in np.linspace(0, TWO_PI, c["ntheta"] + 1)], "uniform_breaks": True}
    ncr = c["nr"] - c["d2"]
    s2 = {"degree": c["d2"], "periodic": False, "uniform": bool(c["cu"]),
          "breaks": [float(x) for x in np.linspace(c["rmin"], c["rmax"], ncr + 1)], "uniform_breaks": True}
    return s1, s2


def radial_shape(kind, s):
    return [np.ones_like(s), s, s * s, s * (1 - s)][kind]


def fields(c, theta, rpts, sref=None):
    s = (rpts - c["rmin"]) / (c["rmax"] - c["rmin"])
    f = np.full((len(theta), len(rpts)), c["fconst"])
    for k, g, amp, ph in c["fmodes"]:
        f = f + amp * np.cos(k * theta[:, None] + ph) * radial_shape(g, s)[None, :]
    if c["noise"]:
        f = f + c["noise"] * np.random.default_rng(c["seed"]).standard_normal(f.shape)
    phi = np.zeros_like(f)
    for k, g, amp, ph in c.get("phimodes", []):
        phi = phi + amp * np.cos(k * theta[:, None] + ph) * radial_shape(g, s)[None, :]
    if c.get("phiblock") and sref is not None:
        i0, j0, wi, wj = c["phiblock"]
        C0 = np.zeros((len(theta), len(rpts)))
        vals = np.random.default_rng(c["seed"] + 1).uniform(-1, 1, (wi, wj))
        for a in range(wi):
            for b in range(wj):
                C0[(i0 + a) % len(theta), min(j0 + b, len(rpts) - 1)] = vals[a, b]
        phi = phi + sref.A1 @ C0 @ sref.A2.T         # nodal values of the spline with these coefficients
    return f, phi


def build(c, explicit=True, nul=False, tol=1e-10):
    from pygyro.splines.splines import Spline2D
    from pygyro.splines.spline_interpolators import SplineInterpolator2D
    from pygyro.advection.advection import PoloidalAdvection
    from pygyro.initialisation.constants import Constants
    s1, s2 = spaces(c)
    if len(s2["breaks"]) < 2:
        raise Inconclusive("too few radial cells for this degree")
    b1, b2 = bspl.make_basis(s1), bspl.make_basis(s2)
    theta, rpts = np.asarray(b1.greville, float), np.asarray(b2.greville, float)
    consts = Constants()
    consts.B0 = c["B0"]
    consts.rMin, consts.rMax = c["rmin"], c["rmax"]
    eta = [rpts, theta, np.array([0.0, 1.0]), np.array([0.0])]
    adv = PoloidalAdvection(eta, [b1, b2], consts, nulEdge=nul, explicitTrap=explicit, tol=tol)
    phis = Spline2D(b1, b2)
    interp = SplineInterpolator2D(b1, b2)
    sref = advect.Spline2DRef(s1, b1, s2, b2)
    return s1, s2, b1, b2, theta, rpts, consts, adv, phis, interp, sref


def jac_norm(sref, C, theta, rpts, B0):
    """Numerical bound of the max-row-sum norm of the Jacobian of the velocity field."""
    q = np.linspace(0, TWO_PI, 3 * len(theta), endpoint=False)
    r = np.linspace(rpts[0], rpts[-1], 3 * len(rpts))
    Q, R = np.meshgrid(q, r, indexing="ij")
    h1, h2 = 1e-5, 1e-5 * (rpts[-1] - rpts[0])
    Rm = np.clip(R - h2, rpts[0], rpts[-1])
    Rp = np.clip(R + h2, rpts[0], rpts[-1])
    aq0, ar0, _ = advect.poloidal_velocity(sref, C, Q - h1, R, B0, rpts[0], rpts[-1])
    aq1, ar1, _ = advect.poloidal_velocity(sref, C, Q + h1, R, B0, rpts[0], rpts[-1])
    aq2, ar2, _ = advect.poloidal_velocity(sref, C, Q, Rm, B0, rpts[0], rpts[-1])
    aq3, ar3, _ = advect.poloidal_velocity(sref, C, Q, Rp, B0, rpts[0], rpts[-1])
    dqq, drq = (aq1 - aq0) / (2 * h1), (ar1 - ar0) / (2 * h1)
    dqr, drr = (aq3 - aq2) / (Rp - Rm), (ar3 - ar2) / (Rp - Rm)
    return float(max((np.abs(dqq) + np.abs(dqr)).max(), (np.abs(drq) + np.abs(drr)).max()))


def tolerances(c, sref, Cphi, Cf, f, dt, theta, rpts):
    gq, gr = sref.grad_bound(Cf)
    pm = float(np.abs(Cphi).max())
    p1, p2 = sref.r1.p, sref.r2.p
    vel_err = 64 * EPS * pm * (p1 + 1) * (p2 + 1) * max((p1 + 1) / sref.r1.min_span, (p2 + 1) / sref.r2.min_span) / rpts[0]
    lip = 1.0
    dfoot = 8 * abs(dt) / c["B0"] * vel_err * (1 + lip) + 16 * EPS * (TWO_PI + rpts[-1])
    scale = float(np.abs(f).max()) + 1e-300
    if not c.get("nul"):
        # feet outside the radial domain take equilibrium values, whatever the magnitude of f
        from pygyro.initialisation.constants import Constants
        cc = Constants()
        cc.rMin, cc.rMax = c["rmin"], c["rmax"]
        scale += float(np.abs(advect.f_eq(np.array([rpts[0], rpts[-1]]), c["v"], advect.const_dict(cc))).max())
    return 1e3 * EPS * sref.cond * scale + (gq + gr) * dfoot, (gq, gr)


def predicate(c):
    import pygyro.advection.accelerated_advection_steps as ACC
    with crash_is_violation("C12:build", "building PoloidalAdvection"):
        s1, s2, b1, b2, theta, rpts, consts, adv, phis, interp, sref = build(c, c["explicit"], c["nul"], c["tol"])
    if sref.cond > 1e8:
        raise Inconclusive("ill-conditioned collocation")
    f0, phi = fields(c, theta, rpts, sref)
    with crash_is_violation("C12:interp", "interpolating phi"):
        interp.compute_interpolant(phi.copy(), phis)
    Cphi = phis.coeffs.copy()
    cd = advect.const_dict(consts)
    Q, R = np.meshgrid(theta, rpts, indexing="ij")
    a0q, a0r, _ = advect.poloidal_velocity(sref, Cphi, Q, R, c["B0"], rpts[0], rpts[-1])
    dth, dr = TWO_PI / c["ntheta"], (rpts[-1] - rpts[0]) / (len(rpts) - 1)
    speed = max(float(np.abs(a0q).max()) / dth, float(np.abs(a0r).max()) / dr, 1e-300)
    dt = c["disp"] / speed
    if not np.isfinite(dt) or abs(dt) > 1e6 or speed < 1e-9:
        # (numerically) constant potential: the drift is rounding noise, do not size dt by it
        dt = math.copysign(1.0, c["disp"])
    labels = ["cu" if b1.cubic_uniform else "nu", "explicit" if c["explicit"] else "implicit",
              "nulEdge" if c["nul"] else "fEqEdge"]
    if c.get("phiblock"):
        labels.append("localised-phi")
    sweeps_seen = None
    if not c["explicit"]:
        J = jac_norm(sref, Cphi, theta, rpts, c["B0"])
        q = abs(dt) / 2 * J * 1.5
        # q carries a safety factor 1.5: the true contraction factor stays below ~0.63, or ~0.9 for the cases marked slow
        QMAX = 1.35 if c.get("slow") else 0.95
        if q > QMAX:
            dt = dt * QMAX / q * 0.95
            q = QMAX * 0.95
            labels.append("dt-reduced-to-contraction-regime")
        # the stopping test compares successive iterates with tol; the drift is a difference of O(max|c|/h) terms, so
        # the iterates carry rounding noise of about eps * |dt| * max|c| / (h r_min B0).  A tolerance below that floor
        # cannot be met by any implementation (met in the thorough tier: phi = 1 + 1e-6 s^2 made dt ~ 1e5); termination
        # is only claimed when tol is 100x above it
        gq_, gr_ = sref.grad_bound(Cphi)
        floor = EPS * max(gq_, gr_) / (rpts[0] * c["B0"])
        if abs(dt) * floor * 100 > c["tol"]:
            dt = math.copysign(c["tol"] / (100 * floor), dt)
            labels.append("dt-capped-by-rounding-floor")
        # the reference runs the same fixed-point map from the same first guess to a 1000x tighter tolerance: the
        # number of sweeps it needs bounds what the code may need
        _, info0 = advect.poloidal_step_ref(f0, Cphi, sref, theta, rpts, dt, c["v"], c["B0"], cd, c["nul"],
                                            explicit=False, tol=c["tol"])
        nref = int(info0["sweeps"])
        # count fixed-point sweeps by wrapping the evaluation kernels
        nodes = f0.size
        limit = (2 * (nref + 60) + 1) * nodes
        counter = {"n": 0}
        names = ["nu_eval_spline_2d_scalar", "cu_eval_spline_2d_scalar"]
        orig = {n: getattr(ACC, n) for n in names}

        def wrap(fn):
            def g(*a, **k):
                counter["n"] += 1
                if counter["n"] > limit:
                    raise Violation("C12:implicit-nontermination", "more than %d fixed-point sweeps in the contraction regime "
                                    "(|dt|/2 Lip = %.3f, tol %g); the reference iteration needs %d for a 1000x tighter tolerance"
                                    % (nref + 60, abs(dt) / 2 * J, c["tol"], nref))
                return fn(*a, **k)
            return g
        for n in names:
            setattr(ACC, n, wrap(orig[n]))
        try:
            with crash_is_violation("C12:step", "PoloidalAdvection.step (implicit)"):
                got = f0.copy()
                adv.step(got, dt, phis, c["v"])
        finally:
            for n in names:
                setattr(ACC, n, orig[n])
        sweeps_seen = (counter["n"] - nodes) / (2.0 * nodes)
        labels.append("contraction<=0.5" if q <= 0.5 else ("contraction<=0.95" if q <= 0.95 else "contraction<=1.35/1.5"))
        if nref > 20:
            labels.append("reference-needs>20-sweeps")
        ntol = info0.get("sweeps_tol")
        if ntol is not None and sweeps_seen < ntol - 3:
            raise Violation("C12:implicit-stopped-early", "the iteration stopped after %.1f sweeps; the same fixed-point map, from the "
                            "same first guess, only gets its update below tol = %g at sweep %d" % (sweeps_seen, c["tol"], ntol))
        if sweeps_seen > nref + 15:
            raise Violation("C12:implicit-too-many-sweeps", "%.1f fixed-point sweeps (|dt|/2 Lip = %.3f, tol %g); the reference "
                            "iteration needs %d for a 1000x tighter tolerance" % (sweeps_seen, abs(dt) / 2 * J, c["tol"], nref))
    else:
        with crash_is_violation("C12:step", "PoloidalAdvection.step (explicit)"):
            got = f0.copy()
            adv.step(got, dt, phis, c["v"])
        # the step works in place on whatever array it is handed: a slice of a larger block, a Fortran-ordered array
        # (interpreted kernels only).  Same data, same operator, so the same result as for the C-contiguous copy.
        if interpreted_kernels():
            blk = np.full(f0.shape + (2,), np.nan)
            blk[..., 1] = f0
            ff = np.asfortranarray(f0.copy())
            with crash_is_violation("C12:step", "PoloidalAdvection.step (explicit, f given as a view)"):
                adv.step(blk[..., 1], dt, phis, c["v"])
                adv.step(ff, dt, phis, c["v"])
            vt = 1e-12 * (float(np.abs(f0).max()) + 1e-300)
            for what, arr in (("a slice of a larger block", blk[..., 1]), ("a Fortran-ordered array", ff)):
                if not (np.abs(arr - got) <= vt).all():
                    raise Violation("C12:%s:view" % labels[0], "step on %s leaves max |f_view - f_contiguous| = %.3e (result not "
                                    "stored in the array handed over?)" % (what, np.nanmax(np.abs(arr - got))))
            if not np.isnan(blk[..., 0]).all():
                raise Violation("C12:%s:view" % labels[0], "step on a slice of a larger block wrote outside the slice")
            labels.append("views")
    want, info = advect.poloidal_step_ref(f0, Cphi, sref, theta, rpts, dt, c["v"], c["B0"], cd, c["nul"],
                                          explicit=c["explicit"], tol=c["tol"])
    tol, (gq, gr) = tolerances(c, sref, Cphi, info["Cf"], f0, dt, theta, rpts)
    if not c["explicit"]:
        tol += 4 * c["tol"] * (gq + gr)
    ok = ~info["near"]
    err = np.abs(got - want)
    bad = ok & ~(err <= tol)
    if bad.any():
        i, j = np.argwhere(bad)[0]
        where = "inside" if info["inside"][i, j] else ("below rMin" if info["below"][i, j] else "above rMax")
        raise Violation("C12:%s:%s:%s" % (labels[0], labels[1], where.split()[0]),
                        "node (theta %d, r %d): got %r, expected %r (|diff| %.3e > tol %.3e); foot (%.6f, %.6f) %s; dt=%r, %d nodes off"
                        % (i, j, got[i, j], want[i, j], err[i, j], tol, info["k2q"][i, j], info["k2r"][i, j], where, dt,
                           int(bad.sum())))
    moved = max(float(np.abs(dt * a0q).max()) / dth, float(np.abs(dt * a0r).max()) / dr)
    if info["near"].any():
        labels.append("excluded-near-boundary")
    if (~info["inside"]).any():
        labels.append("feet-outside")
    if sweeps_seen is not None:
        labels.append("sweeps<=%d" % (10 * int(math.ceil(sweeps_seen / 10.0))))
    nontriv = float(np.ptp(phi)) > 0 and float(np.ptp(f0)) > 0 and moved > 1.0
    return {"nontrivial": nontriv, "labels": labels, "evals": 1}


# ------------------------------------------------------------------------------------------------
@st.composite
def exact_cases(draw, tier):
    c = draw(base(tier))
    c["d2"] = max(c["d2"], 2) if not c["cu"] else 3
    c["d1"] = c["d1"] if not c["cu"] else 3
    c["kind"] = draw(st.sampled_from(["constant", "rotation", "rotation-cells"]))
    c["omega"] = draw(st.floats(-2, 2))
    c["cells"] = draw(st.integers(-5, 5))
    c["phi0"] = draw(st.floats(-5, 5))
    c["dt"] = draw(st.sampled_from([0.5, 2.0, -1.0, 0.125]))
    c["explicit"] = draw(st.booleans())
    c["nul"] = draw(st.booleans())
    return c


def exact_pred(c):
    with crash_is_violation("C12:build", "building PoloidalAdvection"):
        s1, s2, b1, b2, theta, rpts, consts, adv, phis, interp, sref = build(c, c["explicit"], c["nul"], 1e-12)
    if sref.cond > 1e8:
        raise Inconclusive("ill-conditioned collocation")
    f0, _ = fields(c, theta, rpts)
    scale = float(np.abs(f0).max()) + 1e-300
    dt = c["dt"]
    if c["kind"] == "constant":
        phi = np.full_like(f0, c["phi0"])
        angle = 0.0
    else:
        if c["kind"] == "rotation-cells":
            omega = c["cells"] * (TWO_PI / c["ntheta"]) * c["B0"] / dt
        else:
            omega = c["omega"]
        phi = np.tile(0.5 * omega * rpts ** 2, (len(theta), 1))
        angle = omega * dt / c["B0"]
    interp.compute_interpolant(phi.copy(), phis)
    with crash_is_violation("C12:step", "PoloidalAdvection.step"):
        got = f0.copy()
        adv.step(got, dt, phis, c["v"])
    Cf = sref.coeffs(f0)
    gq, gr = sref.grad_bound(Cf)
    pm = float(np.abs(phis.coeffs).max())
    tol = 1e3 * EPS * sref.cond * scale + (gq + gr) * (abs(dt) * 1e4 * EPS * (pm + 1.0) / (sref.r2.min_span ** 2 * rpts[0])
                                                       + 16 * EPS * (TWO_PI + rpts[-1]) + (0 if c["explicit"] else 4e-12))
    # foot: theta - omega dt / B0 ... the scheme moves to theta + dt*theta_dot with theta_dot = -omega/B0
    want = sref.grid(Cf, np.mod(theta - angle, TWO_PI), rpts)
    inner = slice(1, -1)          # boundary radii: foot within rounding distance of the boundary (excluded)
    err = np.abs(got[:, inner] - want[:, inner]).max()
    if not err <= tol:
        raise Violation("C12:exact:%s" % c["kind"], "%s scheme, phi=%s: result differs from the exact solution by %.3e (tol %.3e)"
                        % ("explicit" if c["explicit"] else "implicit", c["kind"], err, tol))
    if c["kind"] == "rotation-cells":
        rolled = np.roll(f0, c["cells"], axis=0)
        err = np.abs(got[:, inner] - rolled[:, inner]).max()
        if not err <= tol:
            raise Violation("C12:exact:roll", "whole-cell rotation by %d cells differs from np.roll by %.3e (tol %.3e)"
                            % (c["cells"], err, tol))
    return {"nontrivial": c["kind"] != "constant" and float(np.ptp(f0)) > 0,
            "labels": [c["kind"], "explicit" if c["explicit"] else "implicit"]}


# ------------------------------------------------------------------------------------------------
@st.composite
def order_cases(draw, tier):
    c = draw(base(tier, max_n=10))
    c["cu"], c["d1"], c["d2"] = True, 3, 3
    c["noise"] = 0.0
    c["fmodes"] = [[1, 3, 1.0, 0.3], [2, 1, 0.5, 1.0]]
    c["phimodes"] = [[draw(st.integers(1, 2)), 3, draw(st.floats(0.3, 1.0)), draw(st.floats(0, 6.3))],
                     [0, 2, draw(st.floats(0.2, 1.0)), 0.0]]
    c["q"] = draw(st.sampled_from([0.6, 0.4]))
    return c


def order_pred(c):
    with crash_is_violation("C12:build", "building PoloidalAdvection"):
        s1, s2, b1, b2, theta, rpts, consts, advE, phis, interp, sref = build(c, True, True, 1e-12)
        advI = build(c, False, True, 1e-12)[7]
    f0, phi = fields(c, theta, rpts)
    interp.compute_interpolant(phi.copy(), phis)
    J = jac_norm(sref, phis.coeffs, theta, rpts, c["B0"])
    dt0 = c["q"] / max(J, 1e-300)
    diffs = []
    for dt in (dt0, dt0 / 2, dt0 / 4):
        ge, gi = f0.copy(), f0.copy()
        advE.step(ge, dt, phis, c["v"])
        advI.step(gi, dt, phis, c["v"])
        _, info = advect.poloidal_step_ref(f0, phis.coeffs, sref, theta, rpts, dt, c["v"], c["B0"],
                                           advect.const_dict(consts), True, explicit=True)
        keep = info["inside"] & ~info["near"]
        keep[:, 0] = keep[:, -1] = False
        diffs.append(float(np.abs(ge - gi)[keep].max()) if keep.any() else 0.0)
    rates = [math.log(diffs[i] / diffs[i + 1], 2) for i in range(2) if diffs[i] > 1e-10 and diffs[i + 1] > 1e-10]
    # third order is an asymptotic statement: the rate measured on the finest pair decides (>= 2.5); the coarser pair may
    # still be pre-asymptotic (2.47 then 2.80 was met in the thorough tier) but must not look second order
    if rates and (rates[-1] < 2.5 or min(rates) < 2.0):
        raise Violation("C12:explicit-vs-implicit-order", "differences %s for dt, dt/2, dt/4 give observed orders %s (< 2.5)"
                        % (diffs, rates))
    return {"nontrivial": bool(rates), "labels": ["rates-measured" if rates else "below-noise"], "evals": 6}



# ------------------------------------------------------------------------------------------------
# the same operator object stepped several times with different potentials / time steps
# ------------------------------------------------------------------------------------------------
@st.composite
def reuse_cases(draw, tier):
    c = draw(base(tier, max_n=10))
    c["phimodes"] = [list(m) for m in draw(st.lists(st.tuples(st.integers(0, 3), st.integers(0, 3), st.floats(-1, 1),
                                                              st.floats(0, 6.3)), min_size=1, max_size=2))]
    c["nul"] = draw(st.booleans())
    c["stages"] = [[draw(st.sampled_from(["given", "rot", "radial", "given-rev"])),
                    draw(st.sampled_from([0.4, 1.3, 2.6, 0.1])) * draw(st.sampled_from([-1.0, 1.0]))]
                   for _ in range(draw(st.integers(2, 4)))]
    return c


def reuse_pred(c):
    with crash_is_violation("C12:build", "building PoloidalAdvection"):
        s1, s2, b1, b2, theta, rpts, consts, adv, phis, interp, sref = build(c, True, c["nul"], 1e-10)
    if sref.cond > 1e8:
        raise Inconclusive("ill-conditioned collocation")
    f0, phi_g = fields(c, theta, rpts)
    cd = advect.const_dict(consts)
    Q, R = np.meshgrid(theta, rpts, indexing="ij")
    dth, dr = TWO_PI / c["ntheta"], (rpts[-1] - rpts[0]) / (len(rpts) - 1)
    s = (rpts - rpts[0]) / (rpts[-1] - rpts[0])
    f = f0.copy()
    out_seen = in_seen = False
    for k, (kind, disp) in enumerate(c["stages"]):
        if kind == "given":
            phi = phi_g
        elif kind == "given-rev":
            phi = -1.3 * np.roll(phi_g, 1, axis=0)[:, ::-1]
        elif kind == "rot":
            phi = np.tile(0.5 * rpts ** 2, (len(theta), 1))
        else:
            phi = (rpts[None, :] * np.sin(theta[:, None] + 0.3 * k))
        interp.compute_interpolant(np.ascontiguousarray(phi), phis)
        Cphi = phis.coeffs.copy()
        a0q, a0r, _ = advect.poloidal_velocity(sref, Cphi, Q, R, c["B0"], rpts[0], rpts[-1])
        speed = max(float(np.abs(a0q).max()) / dth, float(np.abs(a0r).max()) / dr, 1e-300)
        dt = disp / speed
        if not np.isfinite(dt) or abs(dt) > 1e6 or speed < 1e-9:
            dt = math.copysign(1.0, disp)
        fin = f.copy()
        want, info = advect.poloidal_step_ref(fin, Cphi, sref, theta, rpts, dt, c["v"], c["B0"], cd, c["nul"], explicit=True)
        with crash_is_violation("C12:step", "PoloidalAdvection.step (re-used operator, stage %d)" % k):
            got = fin.copy()
            adv.step(got, dt, phis, c["v"])
        tol, _ = tolerances(c, sref, Cphi, info["Cf"], fin, dt, theta, rpts)
        ok = ~info["near"]
        err = np.abs(got - want)
        bad = ok & ~(err <= tol)
        if bad.any():
            i, j = np.argwhere(bad)[0]
            raise Violation("C12:reuse:stage-depends-on-history", "stage %d (%s, displacement %.2f cells) on a re-used operator: node (theta %d, r %d) "
                            "got %r, a fresh evaluation of the stated scheme gives %r (|diff| %.3e > tol %.3e; %d nodes)"
                            % (k, kind, disp, i, j, got[i, j], want[i, j], err[i, j], tol, int(bad.sum())))
        pred_out = (info["k1r"] < rpts[0]) | (info["k1r"] > rpts[-1])
        out_seen |= bool(pred_out.any())
        in_seen |= bool((~pred_out).any())
        f = want.copy()
        f[~ok] = got[~ok]
    return {"nontrivial": out_seen and in_seen and len(c["stages"]) >= 2,
            "labels": ["cu" if b1.cubic_uniform else "nu", "stages=%d" % len(c["stages"]),
                       "predictor-left-domain" if out_seen else "predictor-always-inside"], "evals": len(c["stages"])}


# ------------------------------------------------------------------------------------------------
# grid level: every (v, z) plane owned by a rank is advected with the potential of its own z plane
# ------------------------------------------------------------------------------------------------
@st.composite
def grid_cases(draw, tier):
    from .. import sim
    cfg = draw(sim.sim_config(tier))
    maxP = 6 if tier == "quick" else 12
    grids = sim.admissible_grids(cfg["npts"], maxP)
    g = draw(st.sampled_from(grids))
    return {"cfg": cfg, "nprocs": g, "seed": draw(st.integers(0, 2 ** 16)), "phiamp": draw(st.sampled_from([1.0, 3.0, 10.0])),
            "schedule": draw(gen.schedules(8))}


def _grid_rank(ctx, c):
    from .. import sim
    rs = sim.RankSim(ctx.comm, c["cfg"], c["nprocs"], diagnostics=False)
    f = rs.f
    eta = f.eta_grid
    F = sim.equilibrium_like_field(c["cfg"], eta, c["seed"])
    Phi = c["phiamp"] * sim.smooth_noise_field(tuple(len(e) for e in eta[:3]), c["seed"] + 1)
    f.setLayout('poloidal')
    sim.fill(f, F)
    php = rs.new_phi('poloidal')
    sim.fill(php, Phi.astype(complex))
    rs.polAdv.gridStep(f, php, rs.halfStep)
    out = {"step": sim.piece(f), "planes": int(f.getLayout('poloidal').shape[1])}
    sim.fill(f, F)
    rs.polAdv.gridStep_SplinesUnchanged(f, rs.halfStep)
    out["unchanged"] = sim.piece(f)
    return out


def grid_pred(c):
    from .. import sim, gridref
    from ..simmpi import core
    cfg = c["cfg"]
    P = c["nprocs"][0] * c["nprocs"][1]
    res, w = run_world(P, _grid_rank, (c,), schedule=c["schedule"], key="C12:grid")
    g, consts = sim.setup_distrib(core.COMM_WORLD, cfg, "v_parallel", [1, 1], save=False)
    eta = g.eta_grid
    ref = gridref.GridRef(eta, [g.getSpline(i) for i in range(4)], consts)
    F = sim.equilibrium_like_field(cfg, eta, c["seed"])
    Phi = c["phiamp"] * sim.smooth_noise_field(tuple(len(e) for e in eta[:3]), c["seed"] + 1)
    want, ok = ref.poloidal(F, Phi, consts.dt * 0.5)
    scale = float(np.abs(F).max())
    for name in ("step", "unchanged"):
        got = sim.assemble([r[name] for r in res], tuple(cfg["npts"]), name)
        err = np.abs(got - want)
        bad = ok & ~(err <= 1e-8 * scale)
        if bad.any():
            idx = tuple(int(x) for x in np.argwhere(bad)[0])
            raise Violation("C12:grid:" + name, "process grid %s: plane (z=%d, v=%d) node (r=%d, theta=%d) is %r; advecting that plane "
                            "with the potential of its own z gives %r (|diff| %.3e, scale %.3e; %d nodes)"
                            % (c["nprocs"], idx[2], idx[3], idx[0], idx[1], got[idx], want[idx], float(err[idx]), scale, int(bad.sum())))
    planes = max(r["planes"] for r in res)
    return {"nontrivial": planes >= 2, "labels": ["P=%d" % P, "planes>=2" if planes >= 2 else "one-plane"], "evals": 2}


SUBS = {"step": Sub(predicate, strategy=cases), "exact": Sub(exact_pred, strategy=exact_cases),
        "order": Sub(order_pred, strategy=order_cases), "reuse": Sub(reuse_pred, strategy=reuse_cases),
        "grid": Sub(grid_pred, strategy=grid_cases)}


def jobs(tier):
    n1, n2, n3, n4 = (10, 12, 3, 12) if tier == "quick" else (1200, 1200, 150, 1200)
    return ([{"sub": "step", "n": n1, "shard": i} for i in range(14)] +
            [{"sub": "exact", "n": n2, "shard": i} for i in range(4)] +
            [{"sub": "order", "n": n3, "shard": i} for i in range(2)] +
            [{"sub": "reuse", "n": n4, "shard": i} for i in range(4)] +
            [{"sub": "grid", "n": 3 if tier == "quick" else 150, "shard": i} for i in range(6)])


def init_worker(tier):
    import warnings
    from .. import sim
    warnings.simplefilter("ignore")
    sim.install()
