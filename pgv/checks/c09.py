"""
C09 -- Spline quadrature weights integrate the interpolant exactly.
"""
import numpy as np
from hypothesis import strategies as st

from .. import gen
from ..harness import Sub, Violation, Inconclusive, crash_is_violation
from ..oracles import bspl

PROPERTY = "C09"
HANG_SECONDS = 60.0
LINE_BUDGET = 1000000000
RULE = ("Hypothesis-generated 1-D spline spaces (degree 1-10, 1-12 cells, clamped/periodic, uniform/non-uniform "
        "breaks, uniform-cubic fast path incl. 1-4 cells) and data vectors.  Oracle: exact integrals of every "
        "basis function (scipy BSpline.integrate on the knots the path uses; periodic spaces compared on the "
        "folded sums integrals[:n] with [:p] += integrals[n:], the only behavioural quantity), w.u = sum_j c_j "
        "int B_j with c from an independent dense collocation solve, sum(w) = b-a, uniform periodic => all "
        "weights equal dx.  Non-trivial = non-uniform breaks, or periodic, or uniform-cubic with <= 4 cells; "
        "distinct = distinct case digest.")
ASSUMPTIONS = ["tolerance 1e3 eps cond(A) scale; collocation systems with cond > 1e10 are counted inconclusive"]

EPS = np.finfo(float).eps


@st.composite
def cases(draw, tier):
    kind = draw(st.integers(0, 5))
    if kind == 0:
        space = draw(gen.spline_space(cubic_uniform=True, min_cells=1, max_cells=4, periodic=False))
    elif kind == 1:
        space = draw(gen.spline_space(cubic_uniform=True, min_cells=1, max_cells=12))
    else:
        space = draw(gen.spline_space(max_degree=10))
    nc = len(space["breaks"]) - 1
    nb = nc if space["periodic"] else nc + space["degree"]
    mags = st.sampled_from([1.0, 1.0, 1e-8, 1e8, 1e3])
    data = draw(st.lists(st.tuples(st.floats(-1, 1), mags), min_size=nb, max_size=nb))
    data = [a * m for a, m in data]
    if draw(st.integers(0, 4)) == 0:
        data = [1.0] * nb
    return {"space": space, "data": data}


def predicate(case):
    from pygyro.splines.spline_interpolators import SplineInterpolator1D
    space = case["space"]
    p = space["degree"]
    with crash_is_violation("C09:build", "building the spline space / interpolator"):
        basis = bspl.make_basis(space)
        interp = SplineInterpolator1D(basis)
    ref = bspl.Ref(space, basis)
    path = "cu" if basis.cubic_uniform else "nu"
    per = bool(space["periodic"])
    tag = "%s:%s" % (path, "periodic" if per else "clamped")
    a, b = space["breaks"][0], space["breaks"][-1]
    n = basis.nbasis
    exact = ref.integrals()
    stored = np.array(basis.integrals, dtype=float, copy=True)
    scale = (b - a)
    # ---- stored basis integrals ---------------------------------------------------------------
    if stored.shape != exact.shape:
        raise Violation("C09:%s:integrals-shape" % tag, "integrals has shape %s, expected %s" % (stored.shape, exact.shape))
    # lengths are differences of coordinates: one ulp of max|x| per breakpoint is inherent
    coord = 16 * EPS * max(abs(a), abs(b)) * (len(space["breaks"]) + 1)
    tol_i = 256 * (p + 2) * EPS * scale + coord
    if per:
        got_f = stored[:n].copy()
        got_f[:p] += stored[n:]
        want_f = ref.folded_integrals()
        if np.abs(got_f - want_f).max() > tol_i:
            j = int(np.argmax(np.abs(got_f - want_f)))
            raise Violation("C09:%s:basis-integrals" % tag,
                            "folded integral of periodic basis function %d is %r, exact %r (sum %r vs period %r)"
                            % (j, got_f[j], want_f[j], got_f.sum(), b - a))
    else:
        if np.abs(stored - exact).max() > tol_i:
            j = int(np.argmax(np.abs(stored - exact)))
            raise Violation("C09:%s:basis-integrals" % tag,
                            "integral of basis function %d is %r, exact %r (sum %r vs length %r)"
                            % (j, stored[j], exact[j], stored.sum(), b - a))
    # ---- quadrature weights -------------------------------------------------------------------
    pts = np.asarray(basis.greville, dtype=float)
    data = np.array(case["data"], dtype=float)
    cref, cond, A = bspl.interpolate(ref, pts, data)
    if cond > 1e10:
        raise Inconclusive("ill-conditioned collocation")
    with crash_is_violation("C09:weights", "get_quadrature_coefficients"):
        w = np.asarray(interp.get_quadrature_coefficients(), dtype=float)
    if w.shape != (n,):
        raise Violation("C09:%s:weights-shape" % tag, "weights have shape %s, expected (%d,)" % (w.shape, n))
    ints = ref.folded_integrals() if per else exact
    w_ref = np.linalg.solve(A.T, ints)
    tol_w = 1e3 * EPS * cond * scale + coord * cond
    if np.abs(w - w_ref).max() > tol_w:
        j = int(np.argmax(np.abs(w - w_ref)))
        raise Violation("C09:%s:weights" % tag, "weight %d is %r, exact %r (sum of weights %r, domain length %r)"
                        % (j, w[j], w_ref[j], w.sum(), b - a))
    if abs(w.sum() - (b - a)) > tol_w * n:
        raise Violation("C09:%s:weights-sum" % tag, "weights sum to %r, domain length %r" % (w.sum(), b - a))
    if per and space["uniform_breaks"]:
        dx = (b - a) / n
        if np.abs(w - dx).max() > tol_w:
            raise Violation("C09:%s:uniform-periodic-weights" % tag, "weights %s are not all dx=%r" % (w, dx))
    # ---- asking again (same interpolator, and another one sharing the space) changes nothing -------
    with crash_is_violation("C09:weights", "get_quadrature_coefficients (repeated)"):
        w2 = np.asarray(interp.get_quadrature_coefficients(), dtype=float)
        w3 = np.asarray(SplineInterpolator1D(basis).get_quadrature_coefficients(), dtype=float)
        w4 = np.asarray(interp.get_quadrature_coefficients(), dtype=float)
    for name, ww in (("second request", w2), ("second interpolator on the same space", w3), ("third request", w4)):
        if ww.shape != w.shape or np.abs(ww - w).max() > tol_w:
            raise Violation("C09:%s:weights-not-repeatable" % tag, "%s: weights differ from the first request by %.3e (sum %r, domain length %r)"
                            % (name, np.abs(ww - w).max() if ww.shape == w.shape else np.nan, ww.sum(), b - a))
    if not np.array_equal(np.asarray(basis.integrals, dtype=float), stored):
        raise Violation("C09:%s:integrals-modified" % tag, "basis.integrals changed after the quadrature weights were requested (max change %.3e)"
                        % np.abs(np.asarray(basis.integrals, dtype=float) - stored).max())
    # ---- w . u equals the exact integral of the interpolant -------------------------------------
    got = float(w @ data)
    want = float(cref[:len(exact)] @ exact)
    tol_q = (1e3 * EPS * cond * scale + coord * cond) * (np.abs(data).max() + 1e-300) * n
    if abs(got - want) > tol_q:
        raise Violation("C09:%s:quadrature" % tag, "w.u = %r but the integral of the interpolant is %r (tol %.2e)"
                        % (got, want, tol_q))
    nontriv = (not space["uniform_breaks"]) or per or (basis.cubic_uniform and n - 3 <= 4)
    return {"nontrivial": nontriv, "labels": [tag, "deg%d" % p,
                                              "uniform" if space["uniform_breaks"] else "nonuniform",
                                              "cells<=2" if len(space["breaks"]) <= 3 else "cells>2"]}


SUBS = {"weights": Sub(predicate, strategy=cases)}


def jobs(tier):
    n = 320 if tier == "quick" else 36000
    return [{"sub": "weights", "n": n, "shard": i} for i in range(16)]
