"""
C08 -- Interpolants reproduce their data and all polynomials of the spline degree.
"""
import numpy as np
from hypothesis import strategies as st

from .. import gen
from ..harness import Sub, Violation, Inconclusive, crash_is_violation
from ..oracles import bspl

PROPERTY = "C08"
HANG_SECONDS = 60.0
LINE_BUDGET = 1000000000
RULE = ("Hypothesis-generated spline spaces (as C07; 2-D: all four clamped/periodic combinations, uniform-cubic "
        "in both directions or neither) and data vectors/matrices (floats, badly scaled mixes 1e-8..1e8, "
        "complex on clamped 1-D spaces, polynomials of degree <= p).  Oracle: coefficients from "
        "compute_interpolant are evaluated at basis.greville by the independent scipy reference AND by "
        "pygyro's own eval and must return the data within 1e3 eps cond(A) |data|_inf (cond from an independent "
        "dense collocation matrix; cond > 1e10 counted inconclusive); coefficients equal the independent dense "
        "solve; clamped spaces reproduce polynomials (value and slope) at generated points; periodic wrap "
        "c[n:n+p]==c[:p] exactly in every direction; complex = interp(real)+i interp(imag).  "
        "Non-trivial = non-constant data on >= 3 cells (1-D) / mixed boundary types or non-constant data (2-D).")
ASSUMPTIONS = ["periodic spaces have more cells than the degree (documented domain of the periodic collocation)",
               "condition-aware tolerance; ill-conditioned systems are counted, not failed"]

EPS = np.finfo(float).eps
MAGS = [1.0, 1.0, 1.0, 1e-8, 1e8, 1e3, 1e-3]


def scaled_floats(n):
    return st.lists(st.tuples(st.floats(-1, 1), st.sampled_from(MAGS)), min_size=n, max_size=n).map(
        lambda l: [a * m for a, m in l])


@st.composite
def cases_1d(draw, tier):
    space = draw(gen.spline_space(max_degree=10))
    p = space["degree"]
    nc = len(space["breaks"]) - 1
    nb = nc if space["periodic"] else nc + p
    kind = draw(st.sampled_from(["data", "data", "poly", "complex"]))
    case = {"space": space, "kind": kind, "fracs": draw(st.lists(st.floats(0, 1), min_size=1, max_size=5))}
    if kind == "poly":
        if space["periodic"]:
            case["poly"] = [draw(st.floats(-5, 5))]          # only constants are periodic polynomials
        else:
            case["poly"] = draw(st.lists(st.floats(-5, 5), min_size=1, max_size=p + 1))
    elif kind == "complex":
        case["space"] = dict(space, periodic=False)
        nb = nc + p
        case["re"] = draw(scaled_floats(nb))
        case["im"] = draw(scaled_floats(nb))
    else:
        case["data"] = draw(scaled_floats(nb))
    return case


def _poly(coefs, x, a, L, der=0):
    """Polynomial in the scaled variable s=(x-a)/L (keeps magnitudes tame)."""
    pol = np.polynomial.Polynomial(coefs)
    s = (np.asarray(x) - a) / L
    if der:
        return pol.deriv()(s) / L
    return pol(s)


def pred_1d(case):
    from pygyro.splines.splines import Spline1D
    from pygyro.splines.spline_interpolators import SplineInterpolator1D
    space = case["space"]
    p = space["degree"]
    per = bool(space["periodic"])
    kind = case["kind"]
    with crash_is_violation("C08:build", "building space / interpolator"):
        basis = bspl.make_basis(space)
        # the ways a caller spells "complex" that the constructor accepts (builtin, dtype object of the data)
        cdt = [complex, np.dtype(np.complex128), np.zeros(1, dtype=complex).dtype][(len(space["breaks"]) + p) % 3]
        interp = SplineInterpolator1D(basis, dtype=cdt) if kind == "complex" else SplineInterpolator1D(basis)
    ref = bspl.Ref(space, basis)
    path = "cu" if basis.cubic_uniform else "nu"
    tag = "%s:%s" % (path, "periodic" if per else "clamped")
    g = np.asarray(basis.greville, dtype=float)
    a, b = space["breaks"][0], space["breaks"][-1]
    L = b - a
    n = basis.nbasis
    slack = 1e-14 * max(1.0, abs(a), abs(b))     # Greville points are rounded to 15 decimals
    if g.shape != (n,) or g.min() < a - slack or g.max() > b + slack:
        raise Violation("C08:%s:greville" % tag, "interpolation points %s not %d points in [%r,%r]" % (g, n, a, b))
    if kind == "poly":
        data = _poly(case["poly"], g, a, L)
    elif kind == "complex":
        data = np.array(case["re"]) + 1j * np.array(case["im"])
    else:
        data = np.array(case["data"], dtype=float)
    A = bspl.collocation(ref, g)
    cond = np.linalg.cond(A)
    if not np.isfinite(cond) or cond > 1e10:
        raise Inconclusive("ill-conditioned collocation")
    scale = float(np.abs(data).max()) + 1e-300
    tol = 1e3 * EPS * cond * scale
    if kind == "complex":
        with crash_is_violation("C08:complex", "complex interpolation"):
            sc = Spline1D(basis, dtype=complex)
            interp.compute_interpolant(data.copy(), sc)
            sr, si = Spline1D(basis), Spline1D(basis)
            ri = SplineInterpolator1D(basis)
            ri.compute_interpolant(np.real(data).copy(), sr)
            ri.compute_interpolant(np.imag(data).copy(), si)
        want = sr.coeffs + 1j * si.coeffs
        if not np.iscomplexobj(sc.coeffs) or np.abs(sc.coeffs - want).max() > tol:
            raise Violation("C08:%s:complex" % tag, "complex interpolant differs from interp(real)+i*interp(imag) by %.3e (tol %.3e)"
                            % (np.abs(sc.coeffs - want).max(), tol))
        cref = np.linalg.solve(A, data)
        if np.abs(sc.coeffs - cref).max() > tol:
            raise Violation("C08:%s:complex-coefficients" % tag, "complex coefficients differ from the dense solve by %.3e (tol %.3e)"
                            % (np.abs(sc.coeffs - cref).max(), tol))
        back = ref.basis_matrix(g) @ sc.coeffs
        if np.abs(back - data).max() > tol:
            raise Violation("C08:%s:complex-roundtrip" % tag, "complex interpolant misses its data by %.3e (tol %.3e)"
                            % (np.abs(back - data).max(), tol))
        # the same complex interpolator and spline re-used (as the Poisson solver does for every mode), including data whose
        # imaginary part is identically zero and plain float data
        seq = [np.real(data) + 0j, (data * (0.5 - 2j))[::-1].copy(), np.imag(data).astype(float), data.copy()]
        for k, d2 in enumerate(seq):
            with crash_is_violation("C08:complex", "complex interpolation (re-used objects)"):
                interp.compute_interpolant(d2.copy(), sc)
            want2 = np.linalg.solve(A, d2)
            s2 = float(np.abs(d2).max()) + 1e-300
            if np.abs(sc.coeffs - want2).max() > 1e3 * EPS * cond * s2:
                raise Violation("C08:%s:complex-reuse" % tag, "re-used complex interpolator/spline, call %d (%s data): coefficients differ "
                                "from the dense solve by %.3e (tol %.3e)" % (k + 2, "real-valued" if not np.iscomplexobj(d2) or not np.imag(d2).any() else "complex",
                                                                           np.abs(sc.coeffs - want2).max(), 1e3 * EPS * cond * s2))
        return {"nontrivial": n >= 3, "labels": [tag, "complex", "deg%d" % p]}
    with crash_is_violation("C08:interp1d", "compute_interpolant"):
        spl = Spline1D(basis)
        interp.compute_interpolant(data.copy(), spl)
        c = spl.coeffs.copy()
    if per and not np.array_equal(c[n:n + p], c[:p]):
        raise Violation("C08:%s:wrap" % tag, "wrapped coefficients %s != leading coefficients %s" % (c[n:n + p], c[:p]))
    cref = np.linalg.solve(A, data)
    if per:
        cref = np.concatenate([cref, cref[:p]])
    if c.shape != cref.shape or np.abs(c - cref).max() > tol:
        raise Violation("C08:%s:coefficients" % tag, "coefficients differ from the independent dense solve by %.3e (tol %.3e, cond %.1e)"
                        % (np.abs(c - cref).max() if c.shape == cref.shape else np.nan, tol, cond))
    back_ref = ref.eval(c, g)
    if np.abs(back_ref - data).max() > tol:
        j = int(np.argmax(np.abs(back_ref - data)))
        raise Violation("C08:%s:roundtrip" % tag, "interpolant (evaluated independently) at point %d x=%r gives %r, data %r (tol %.3e)"
                        % (j, g[j], back_ref[j], data[j], tol))
    with crash_is_violation("C08:eval", "evaluating the interpolant"):
        back_own = spl.eval(g.copy())
    if np.abs(back_own - data).max() > tol:
        j = int(np.argmax(np.abs(back_own - data)))
        raise Violation("C08:%s:roundtrip-own-eval" % tag, "Spline1D.eval at interpolation point %d x=%r gives %r, data %r (tol %.3e)"
                        % (j, g[j], back_own[j], data[j], tol))
    if kind == "poly":
        x = np.array([a + f * L for f in case["fracs"]] + [a, b])
        x = np.clip(x, a, b)
        pscale = float(np.abs(case["poly"]).sum()) + 1e-300
        tv = 1e3 * EPS * cond * pscale * (p + 1)
        with crash_is_violation("C08:eval", "evaluating the interpolant"):
            v = spl.eval(x.copy())
            d = spl.eval(x.copy(), 1)
        if np.abs(v - _poly(case["poly"], x, a, L)).max() > tv:
            raise Violation("C08:%s:polynomial-values" % tag, "degree-%d polynomial not reproduced: max error %.3e (tol %.3e)"
                            % (len(case["poly"]) - 1, np.abs(v - _poly(case["poly"], x, a, L)).max(), tv))
        td = tv * 4 * (p + 1) ** 2 / ref.min_span
        if p >= 2 or len(case["poly"]) <= 2:
            xi = x if p >= 2 else x[~np.isin(x, space["breaks"])]
            di = d if p >= 2 else d[~np.isin(x, space["breaks"])]
            if len(xi) and np.abs(di - _poly(case["poly"], xi, a, L, 1)).max() > td:
                raise Violation("C08:%s:polynomial-slopes" % tag, "derivative of degree-%d polynomial not reproduced: max error %.3e (tol %.3e)"
                                % (len(case["poly"]) - 1, np.abs(di - _poly(case["poly"], xi, a, L, 1)).max(), td))
    # ---- the scalar entry point at the two ends of the point set (for clamped spaces the domain ends) --------------
    if kind != "complex":
        with crash_is_violation("C08:eval", "scalar evaluation of the interpolant at the end points"):
            e0, e1 = spl.eval(float(g[0])), spl.eval(float(g[-1]))
        for what, got_, want_ in (("first", e0, data[0]), ("last", e1, data[-1])):
            if not abs(got_ - want_) <= tol:
                raise Violation("C08:%s:roundtrip-scalar-ends" % tag, "Spline1D.eval(float) at the %s interpolation point gives %r, "
                                "the datum is %r (tol %.2e)" % (what, got_, want_, tol))
    # ---- the same interpolator / spline re-used for other data behaves like a fresh one ------------
    other = data[::-1] * 0.5 + 1.0
    with crash_is_violation("C08:interp1d", "compute_interpolant (re-used objects)"):
        interp.compute_interpolant(other.copy(), spl)
        again = spl.coeffs.copy()
        fresh = Spline1D(basis)
        SplineInterpolator1D(basis).compute_interpolant(other.copy(), fresh)
        interp.compute_interpolant(data.copy(), spl)
    if not np.array_equal(again, fresh.coeffs):
        raise Violation("C08:%s:reuse" % tag, "a re-used interpolator gives coefficients differing by %.3e from a fresh one"
                        % np.abs(again - fresh.coeffs).max())
    if not np.array_equal(spl.coeffs, c):
        raise Violation("C08:%s:reuse" % tag, "interpolating the first data again does not reproduce the first coefficients")
    # the interpolator's other service (quadrature weights, a transposed solve with the same factorisation) must not
    # change how it interpolates afterwards
    with crash_is_violation("C08:interp1d", "get_quadrature_coefficients followed by compute_interpolant"):
        interp.get_quadrature_coefficients()
        interp.compute_interpolant(other.copy(), spl)
    if not np.array_equal(spl.coeffs, fresh.coeffs):
        raise Violation("C08:%s:reuse-after-quadrature" % tag, "after get_quadrature_coefficients() the interpolator gives coefficients "
                        "differing by %.3e from a fresh one" % np.abs(spl.coeffs - fresh.coeffs).max())
    # ---- data handed over as views (the library's callers pass slices of 3-D / 4-D blocks): every other element of a
    # larger buffer, a column of a C-ordered matrix, a reversed view.  Same data, so the same interpolant (to rounding)
    big = np.full(2 * n + 1, np.nan)
    big[1::2] = data
    mat = np.full((n, 3), np.nan)
    mat[:, 1] = data
    rev = data[::-1].copy()
    for what, view in (("strided", big[1::2]), ("column", mat[:, 1]), ("reversed", rev[::-1])):
        with crash_is_violation("C08:interp1d", "compute_interpolant (data given as a %s view)" % what):
            interp.compute_interpolant(view, spl)
        if np.abs(spl.coeffs - c).max() > tol or not np.all(np.isfinite(spl.coeffs)):
            raise Violation("C08:%s:view" % tag, "data given as a %s view: coefficients differ by %.3e from those of the "
                            "contiguous copy (tol %.3e)" % (what, np.abs(spl.coeffs - c).max(), tol))
    nontriv = float(np.ptp(data)) > 0 and (len(space["breaks"]) - 1) >= 3
    return {"nontrivial": nontriv, "labels": [tag, kind, "deg%d" % p,
                                              "uniform" if space["uniform_breaks"] else "nonuniform"]}


# ------------------------------------------------------------------------------------------------
@st.composite
def cases_2d(draw, tier):
    cu = draw(st.booleans())
    s1 = draw(gen.spline_space(max_degree=5, max_cells=7, cubic_uniform=cu))
    s2 = draw(gen.spline_space(max_degree=5, max_cells=7, cubic_uniform=cu))
    n1 = (len(s1["breaks"]) - 1) + (0 if s1["periodic"] else s1["degree"])
    n2 = (len(s2["breaks"]) - 1) + (0 if s2["periodic"] else s2["degree"])
    kind = draw(st.sampled_from(["data", "data", "poly"]))
    case = {"s1": s1, "s2": s2, "kind": kind,
            "fracs": [list(x) for x in draw(st.lists(st.tuples(st.floats(0, 1), st.floats(0, 1)), min_size=1, max_size=4))]}
    if kind == "poly":
        d1 = 0 if s1["periodic"] else draw(st.integers(0, s1["degree"]))
        d2 = 0 if s2["periodic"] else draw(st.integers(0, s2["degree"]))
        case["pc"] = [[draw(st.floats(-3, 3)) for _ in range(d2 + 1)] for _ in range(d1 + 1)]
    else:
        case["data"] = draw(scaled_floats(n1 * n2))
    return case


def pred_2d(case):
    from pygyro.splines.splines import Spline2D
    from pygyro.splines.spline_interpolators import SplineInterpolator2D
    s1, s2 = case["s1"], case["s2"]
    with crash_is_violation("C08:build", "building 2-D space / interpolator"):
        b1, b2 = bspl.make_basis(s1), bspl.make_basis(s2)
        interp = SplineInterpolator2D(b1, b2)
        spl = Spline2D(b1, b2)
    r1, r2 = bspl.Ref(s1, b1), bspl.Ref(s2, b2)
    g1, g2 = np.asarray(b1.greville, dtype=float), np.asarray(b2.greville, dtype=float)
    n1, n2 = b1.nbasis, b2.nbasis
    a1, L1 = s1["breaks"][0], s1["breaks"][-1] - s1["breaks"][0]
    a2, L2 = s2["breaks"][0], s2["breaks"][-1] - s2["breaks"][0]

    def poly2(x, y, dx=0, dy=0):
        P = np.polynomial.polynomial
        c = np.array(case["pc"], dtype=float)
        sx, sy = (np.asarray(x) - a1) / L1, (np.asarray(y) - a2) / L2
        cc = c
        if dx:
            cc = P.polyder(cc, axis=0) / L1
        if dy:
            cc = P.polyder(cc, axis=1) / L2
        if cc.size == 0:
            return np.zeros((len(sx), len(sy)))
        return P.polygrid2d(sx, sy, np.atleast_2d(cc))

    if case["kind"] == "poly":
        data = poly2(g1, g2)
    else:
        data = np.array(case["data"], dtype=float).reshape(n1, n2)
    A1, A2 = bspl.collocation(r1, g1), bspl.collocation(r2, g2)
    cond = np.linalg.cond(A1) * np.linalg.cond(A2)
    if not np.isfinite(cond) or cond > 1e10:
        raise Inconclusive("ill-conditioned collocation")
    scale = float(np.abs(data).max()) + 1e-300
    tol = 1e3 * EPS * cond * scale
    with crash_is_violation("C08:interp2d", "2-D compute_interpolant"):
        interp.compute_interpolant(data.copy(), spl)
        C = spl.coeffs.copy()
    p1, p2 = b1.degree, b2.degree
    path = "cu" if b1.cubic_uniform else "nu"
    tag = "%s:2d:%s-%s" % (path, "per" if s1["periodic"] else "cl", "per" if s2["periodic"] else "cl")
    if s1["periodic"] and not np.array_equal(C[n1:n1 + p1, :], C[:p1, :]):
        raise Violation("C08:%s:wrap1" % tag, "first-direction wrapped coefficients differ from the leading rows")
    if s2["periodic"] and not np.array_equal(C[:, n2:n2 + p2], C[:, :p2]):
        raise Violation("C08:%s:wrap2" % tag, "second-direction wrapped coefficients differ from the leading columns")
    Cref = np.linalg.solve(A1, np.linalg.solve(A2, data.T).T)
    if np.abs(C[:n1, :n2] - Cref).max() > tol:
        raise Violation("C08:%s:coefficients" % tag, "2-D coefficients differ from the independent tensor solve by %.3e (tol %.3e)"
                        % (np.abs(C[:n1, :n2] - Cref).max(), tol))
    back = r1.basis_matrix(g1) @ C @ r2.basis_matrix(g2).T
    if np.abs(back - data).max() > tol:
        raise Violation("C08:%s:roundtrip" % tag, "2-D interpolant (evaluated independently) misses its data by %.3e (tol %.3e)"
                        % (np.abs(back - data).max(), tol))
    with crash_is_violation("C08:eval", "evaluating the 2-D interpolant"):
        own = spl.eval(g1.copy(), g2.copy())
    if np.abs(own - data).max() > tol:
        raise Violation("C08:%s:roundtrip-own-eval" % tag, "Spline2D.eval at the interpolation points misses the data by %.3e (tol %.3e)"
                        % (np.abs(own - data).max(), tol))
    if case["kind"] == "poly":
        x = np.clip(np.array([a1 + f[0] * L1 for f in case["fracs"]] + [a1, a1 + L1]), a1, a1 + L1)
        y = np.clip(np.array([a2 + f[1] * L2 for f in case["fracs"]] + [a2, a2 + L2]), a2, a2 + L2)
        ps = float(np.abs(case["pc"]).sum()) + 1e-300
        tv = 1e3 * EPS * cond * ps * (p1 + 1) * (p2 + 1)
        with crash_is_violation("C08:eval", "evaluating the 2-D interpolant"):
            v = spl.eval(x.copy(), y.copy())
        if np.abs(v - poly2(x, y)).max() > tv:
            raise Violation("C08:%s:polynomial-values" % tag, "2-D polynomial not reproduced: max error %.3e (tol %.3e)"
                            % (np.abs(v - poly2(x, y)).max(), tv))
        if p1 >= 2 and p2 >= 2:
            with crash_is_violation("C08:eval", "evaluating the 2-D interpolant"):
                vx = spl.eval(x.copy(), y.copy(), 1, 0)
                vy = spl.eval(x.copy(), y.copy(), 0, 1)
            if np.abs(vx - poly2(x, y, 1, 0)).max() > tv * 4 * (p1 + 1) ** 2 / r1.min_span:
                raise Violation("C08:%s:polynomial-slopes" % tag, "d/dx1 of 2-D polynomial not reproduced: %.3e"
                                % np.abs(vx - poly2(x, y, 1, 0)).max())
            if np.abs(vy - poly2(x, y, 0, 1)).max() > tv * 4 * (p2 + 1) ** 2 / r2.min_span:
                raise Violation("C08:%s:polynomial-slopes" % tag, "d/dx2 of 2-D polynomial not reproduced: %.3e"
                                % np.abs(vy - poly2(x, y, 0, 1)).max())
    # ---- the same 2-D interpolator / spline re-used for other data behaves like fresh objects --------
    other = data[::-1, ::-1] * 0.5 + 1.0
    with crash_is_violation("C08:interp2d", "2-D compute_interpolant (re-used objects)"):
        interp.compute_interpolant(other.copy(), spl)
        again = spl.coeffs.copy()
        fresh = Spline2D(b1, b2)
        SplineInterpolator2D(b1, b2).compute_interpolant(other.copy(), fresh)
        interp.compute_interpolant(data.copy(), spl)
    if not np.array_equal(again, fresh.coeffs):
        raise Violation("C08:%s:reuse" % tag, "a re-used 2-D interpolator gives coefficients differing by %.3e from a fresh one"
                        % np.abs(again - fresh.coeffs).max())
    if not np.array_equal(spl.coeffs, C):
        raise Violation("C08:%s:reuse" % tag, "interpolating the first 2-D data again does not reproduce the first coefficients")
    # ---- 2-D data in other memory layouts (Fortran order, a transposed view, a slice of a 3-D block) ----------------
    blk = np.full((n1, 2, n2), np.nan)
    blk[:, 1, :] = data
    for what, view in (("fortran-ordered", np.asfortranarray(data)), ("transposed", np.ascontiguousarray(data.T).T),
                       ("block-slice", blk[:, 1, :])):
        with crash_is_violation("C08:interp2d", "2-D compute_interpolant (%s data)" % what):
            interp.compute_interpolant(view, spl)
        if np.abs(spl.coeffs - C).max() > tol or not np.all(np.isfinite(spl.coeffs)):
            raise Violation("C08:%s:view" % tag, "%s data: 2-D coefficients differ by %.3e from those of the C-contiguous "
                            "copy (tol %.3e)" % (what, np.abs(spl.coeffs - C).max(), tol))
    mixed = s1["periodic"] != s2["periodic"]
    return {"nontrivial": mixed or float(np.ptp(data)) > 0, "labels": [tag, case["kind"]]}


SUBS = {"interp1d": Sub(pred_1d, strategy=cases_1d), "interp2d": Sub(pred_2d, strategy=cases_2d)}


def jobs(tier):
    n1, n2 = (400, 100) if tier == "quick" else (40000, 10000)
    return ([{"sub": "interp1d", "n": n1, "shard": i} for i in range(10)] +
            [{"sub": "interp2d", "n": n2, "shard": i} for i in range(6)])
