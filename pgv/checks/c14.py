"""
C14 -- Elliptic solver returns the per-mode Galerkin solution of the radial equation.
"""
import warnings

import numpy as np
from hypothesis import strategies as st

from .. import gen, sim
from ..harness import Sub, Violation, Inconclusive, run_world, crash_is_violation
from ..oracles import bspl, fem

PROPERTY = "C14"
HANG_SECONDS = 400.0
LINE_BUDGET = 1000000000
RULE = ("Hypothesis-generated DiffEqSolver configurations: radial spline degree 1-5, 2-12 uniform cells on [rmin,rmax] "
        "(rmin>0), uniform-cubic or general space, quadrature exactness parameter generated, constant A in {-1,-1/2,-2}, "
        "coefficient functions B,C,D,E from the families used by the code (polynomials of degree <= 2, 1/r, 1/r^2, "
        "exp-tanh profiles), ntheta 4-9 (even and odd), Neumann index sets per side generated from the mode numbers, "
        "complex discrete right-hand sides or function right-hand sides (E=1), 1-3 ranks over the mode index.  "
        "Oracle = independent dense Galerkin assembly with the same Gauss rule + numpy.linalg.solve per (mode, z); "
        "manufactured polynomial solutions satisfying the essential/natural conditions are reproduced at the nodes; "
        "linearity; exactly 0 at Dirichlet ends; changing rho of one mode leaves every other mode bit-identical; "
        "C=0 with a mode Neumann on both sides => ValueError.  Non-trivial = B or C not identically 0, a mode m != 0 "
        "and a Neumann side present.")
ASSUMPTIONS = ["uniform radial breakpoints (DiffEqSolver places Gauss points with the first cell's width; every caller builds "
               "uniform breaks)", "function right-hand sides only with E=1 (whether solveEquationForFunction should apply E is "
               "not stated)", "systems with cond > 1e10 are counted inconclusive", "simulated MPI for the mode distribution"]

EPS = np.finfo(float).eps


def init_worker(tier):
    warnings.simplefilter("ignore")
    sim.install()


def func_desc(allow_zero=True):
    fl = st.floats(-2, 2)
    opts = [st.builds(lambda v: {"kind": "const", "v": v}, fl),
            st.builds(lambda c: {"kind": "poly", "c": c}, st.lists(fl, min_size=1, max_size=3)),
            st.builds(lambda v: {"kind": "inv", "v": v}, fl),
            st.builds(lambda v: {"kind": "inv2", "v": v}, fl),
            st.builds(lambda v, w, r0: {"kind": "tanh", "v": v, "w": w, "r0": r0}, fl, st.floats(0, 0.5), st.floats(1, 5))]
    if allow_zero:
        opts.append(st.just({"kind": "const", "v": 0.0}))
    return st.one_of(opts)


@st.composite
def cases(draw, tier):
    cu = draw(st.booleans())
    p = 3 if cu else draw(st.integers(1, 5))
    ncells = draw(st.integers(2, 12))
    rmin = draw(st.sampled_from([0.1, 1.0, 2.5]))
    rmax = rmin + draw(st.sampled_from([1.0, 4.0, 8.0, 14.4]))
    ntheta = draw(st.integers(4, 9))
    nz = draw(st.integers(1, 2))
    mvals = [int(x) for x in np.fft.fftfreq(ntheta, 1.0 / ntheta)]
    lN = draw(st.lists(st.sampled_from(mvals), max_size=4, unique=True))
    uN = draw(st.lists(st.sampled_from(mvals), max_size=3, unique=True))
    kind = draw(st.sampled_from(["discrete", "discrete", "function"]))
    E = {"kind": "const", "v": 1.0} if kind == "function" else draw(st.one_of(
        st.just({"kind": "const", "v": 1.0}),
        st.builds(lambda v: {"kind": "const", "v": v}, st.floats(0.5, 2)),
        st.builds(lambda v, w, r0: {"kind": "tanh", "v": v, "w": w, "r0": r0}, st.floats(0.5, 2), st.floats(0, 0.5), st.floats(1, 5))))
    return {"cu": cu, "p": p, "ncells": ncells, "rmin": rmin, "rmax": rmax, "ntheta": ntheta, "nz": nz,
            "qdeg": draw(st.integers(1, 2 * p + 4)), "A": draw(st.sampled_from([-1.0, -0.5, -2.0])),
            "B": draw(func_desc()), "C": draw(func_desc()), "D": draw(func_desc()), "E": E,
            "lN": lN, "uN": uN, "kind": kind, "rhs": draw(func_desc(False)),
            "seed": draw(st.integers(0, 2 ** 16)), "P": draw(st.integers(1, min(3, ntheta))),
            "alpha": draw(st.floats(-2, 2)), "other_mode": draw(st.integers(0, ntheta - 1)),
            "schedule": draw(gen.schedules(6))}


def space_of(c):
    return {"degree": c["p"], "periodic": False, "uniform": bool(c["cu"]),
            "breaks": [float(x) for x in np.linspace(c["rmin"], c["rmax"], c["ncells"] + 1)], "uniform_breaks": True}


def build_solver(c, rbasis, nr, C_override=None):
    from pygyro.poisson.poisson_solver import DiffEqSolver
    a, b = c["rmin"], c["rmax"]
    Av = c["A"]
    return DiffEqSolver(c["qdeg"], rbasis, nr, c["ntheta"], lNeumannIdx=list(c["lN"]), uNeumannIdx=list(c["uN"]),
                        ddrFactor=lambda r: Av, drFactor=fem.scalar_func(c["B"], a, b),
                        rFactor=fem.scalar_func(C_override or c["C"], a, b),
                        ddThetaFactor=fem.scalar_func(c["D"], a, b), rhoFactor=fem.scalar_func(c["E"], a, b))


def _rank(ctx, c, fields):
    from pygyro.model.layout import getLayoutHandler
    from pygyro.model.grid import Grid
    space = space_of(c)
    rb = bspl.make_basis(space)
    r = np.asarray(rb.greville, dtype=float)
    eta = [r, np.linspace(0, 2 * np.pi, c["ntheta"], endpoint=False), np.linspace(0, 1, c["nz"], endpoint=False)]
    rem = getLayoutHandler(ctx.comm, {"mode_solve": [1, 2, 0]}, [ctx.size], eta)
    ps = build_solver(c, rb, len(r))
    out = []
    for F in fields:
        phi = Grid(eta, [rb, None, None], rem, "mode_solve", ctx.comm, dtype=np.complex128)
        phi.getAllData()[:] = np.nan
        if callable(F):
            ps.solveEquationForFunction(phi, F)
        else:
            rho = Grid(eta, [rb, None, None], rem, "mode_solve", ctx.comm, dtype=np.complex128)
            sim.fill(rho, F)
            ps.solveEquation(phi, rho)
        out.append(sim.piece(phi))
    return out


def predicate(c):
    space = space_of(c)
    with crash_is_violation("C14:build", "building the radial space"):
        rb = bspl.make_basis(space)
    r = np.asarray(rb.greville, dtype=float)
    nr, nq, nz = len(r), c["ntheta"], c["nz"]
    a, b = c["rmin"], c["rmax"]
    mv = np.fft.fftfreq(nq, 1.0 / nq)
    both = [m for m in c["lN"] if m in c["uN"]]
    Cf = fem.make_func(c["C"], a, b)
    dense = fem.DenseFEM(space, rb, c["qdeg"], lambda x: c["A"] + 0 * x, fem.make_func(c["B"], a, b), Cf,
                         fem.make_func(c["D"], a, b), fem.make_func(c["E"], a, b))
    labels = ["cu" if rb.cubic_uniform else "nu", "deg%d" % c["p"], c["kind"], "P=%d" % c["P"]]
    # ---- ill-posed pure-Neumann problems must be refused -----------------------------------------
    if both and dense.C_is_null:
        try:
            build_solver(c, rb, nr)
        except ValueError:
            return {"nontrivial": True, "labels": labels + ["refused-pure-neumann"]}
        except Exception as e:  # noqa
            raise Violation("C14:pure-neumann-wrong-exception", "raised %s instead of ValueError" % type(e).__name__)
        raise Violation("C14:pure-neumann-accepted", "modes %s are Neumann on both sides with C=0 but the solver was built" % both)
    rng = np.random.default_rng(c["seed"])
    shape = (nr, nq, nz)
    if c["kind"] == "discrete":
        R1 = rng.standard_normal(shape) + 1j * rng.standard_normal(shape)
        R2 = rng.standard_normal(shape) + 1j * rng.standard_normal(shape)
        R3 = R1.copy()
        R3[:, c["other_mode"], :] += 1.0 + 2.0j * rng.standard_normal((nr, nz))
        # slices that are exactly real or exactly zero, solved by the same solver object after complex ones: nothing of
        # an earlier slice (work arrays, boundary coefficients) may leak into them
        R4 = rng.standard_normal(shape) + 1j * rng.standard_normal(shape)
        sel = rng.integers(0, 4, size=(nq, nz))
        R4.imag[:, sel == 1] = 0.0
        R4[:, sel == 2] = 0.0
        R4[:, sel == 3] *= 1e-11            # a slice of very small amplitude is still solved, not flushed
        fields = [R1, R2, R1 + c["alpha"] * R2, R3, R4]
    else:
        rf = fem.make_func(c["rhs"], a, b)
        Rc = rng.standard_normal(shape) + 1j * rng.standard_normal(shape)
        fields = [lambda x, rf=rf: rf(x), Rc, lambda x, rf=rf: rf(x)]
    # ---- reference per (mode, z) ------------------------------------------------------------------
    worst = 0.0
    ref0 = np.empty(shape, dtype=complex)
    for I in range(nq):
        lNm, uNm = (mv[I] in c["lN"]), (mv[I] in c["uN"])
        for j in range(nz):
            if c["kind"] == "discrete":
                want, cond = dense.solve_discrete(fields[0][:, I, j], r, mv[I] ** 2, lNm, uNm)
            else:
                want, cond = dense.solve_function(rf, r, mv[I] ** 2, lNm, uNm)
            if not np.isfinite(cond) or cond > 1e10:
                raise Inconclusive("ill-conditioned stiffness matrix")
            worst = max(worst, cond)
            ref0[:, I, j] = want
    res, w = run_world(c["P"], _rank, (c, fields), schedule=c["schedule"], key="C14")
    sols = [sim.assemble([rk[k] for rk in res], shape, "phi") for k in range(len(fields))]
    scale = float(np.abs(ref0).max()) + 1e-300
    tol = 1e4 * EPS * worst * scale
    err = np.abs(sols[0] - ref0)
    if not (err <= tol).all():
        idx = tuple(int(x) for x in np.argwhere(~(err <= tol))[0])
        raise Violation("C14:galerkin", "mode index %d (m=%g, %s/%s), z %d: phi(r_%d) = %r, dense Galerkin reference %r (|diff| %.3e, tol %.3e, cond %.1e)"
                        % (idx[1], mv[idx[1]], "N" if mv[idx[1]] in c["lN"] else "D", "N" if mv[idx[1]] in c["uN"] else "D",
                           idx[2], idx[0], sols[0][idx], ref0[idx], err[idx], tol, worst))
    if c["kind"] == "discrete":
        for I in range(nq):
            lNm, uNm = (mv[I] in c["lN"]), (mv[I] in c["uN"])
            for j in range(nz):
                want, cond = dense.solve_discrete(fields[4][:, I, j], r, mv[I] ** 2, lNm, uNm)
                e4 = np.abs(sols[4][:, I, j] - want)
                # every (mode, z) slice is an independent linear solve: its error scales with its own magnitude
                tol4 = min(tol, 1e4 * EPS * worst * (float(np.abs(want).max()) + 1e-300))
                if not (e4 <= tol4).all():
                    k = int(np.argmax(e4))
                    what = ["complex", "exactly real", "exactly zero", "tiny (1e-11)"][int(sel[I, j])]
                    raise Violation("C14:galerkin:mixed-slices", "right-hand side with %s slice at mode index %d (m=%g), z %d, solved "
                                    "after complex slices by the same solver: phi(r_%d) = %r, dense Galerkin reference %r "
                                    "(|diff| %.3e, tol %.3e)" % (what, I, mv[I], j, k, sols[4][k, I, j], want[k], e4[k], tol4))
    else:
        e2 = np.abs(sols[2] - ref0)
        if not (e2 <= tol).all():
            idx = tuple(int(x) for x in np.argwhere(~(e2 <= tol))[0])
            raise Violation("C14:galerkin:function-after-discrete", "function right-hand side solved after a complex discrete one by the "
                            "same solver: mode index %d, z %d: phi(r_%d) = %r, reference %r (|diff| %.3e, tol %.3e)"
                            % (idx[1], idx[2], idx[0], sols[2][idx], ref0[idx], e2[idx], tol))
    # ---- Dirichlet ends exactly zero --------------------------------------------------------------
    for I in range(nq):
        if mv[I] not in c["lN"] and np.any(sols[0][0, I, :] != 0):
            raise Violation("C14:dirichlet", "mode m=%g: value %r at the inner Dirichlet boundary" % (mv[I], sols[0][0, I, 0]))
        if mv[I] not in c["uN"] and np.any(sols[0][-1, I, :] != 0):
            raise Violation("C14:dirichlet", "mode m=%g: value %r at the outer Dirichlet boundary" % (mv[I], sols[0][-1, I, 0]))
    if c["kind"] == "discrete":
        # linear in rho
        lin = np.abs(sols[2] - (sols[0] + c["alpha"] * sols[1])).max()
        s2 = scale + abs(c["alpha"]) * float(np.abs(sols[1]).max())
        if lin > 1e4 * EPS * worst * s2:
            raise Violation("C14:linearity", "phi(r1 + a r2) - phi(r1) - a phi(r2) = %.3e (tol %.3e)" % (lin, 1e4 * EPS * worst * s2))
        # modes are independent
        for I in range(nq):
            if I != c["other_mode"] and not np.array_equal(sols[3][:, I, :], sols[0][:, I, :]):
                raise Violation("C14:mode-coupling", "changing rho of mode index %d changed the solution of mode index %d"
                                % (c["other_mode"], I))
        if np.array_equal(sols[3][:, c["other_mode"], :], sols[0][:, c["other_mode"], :]):
            raise Violation("C14:rho-ignored", "changing rho of mode index %d did not change its solution" % c["other_mode"])
    nonnull = lambda d: not (d["kind"] == "const" and d["v"] == 0)  # noqa
    nontriv = (nonnull(c["B"]) or nonnull(c["C"])) and bool(c["lN"] or c["uN"]) and nq > 1
    if c["lN"] or c["uN"]:
        labels.append("neumann")
    return {"nontrivial": nontriv, "labels": labels, "evals": nq * nz * len(fields)}


# ----------------------------------------------------------------------------------------------
@st.composite
def manu_cases(draw, tier):
    cu = draw(st.booleans())
    p = 3 if cu else draw(st.integers(2, 5))
    return {"cu": cu, "p": p, "ncells": draw(st.integers(2, 8)), "rmin": draw(st.sampled_from([0.5, 1.0, 2.0])),
            "rmax": draw(st.sampled_from([3.0, 6.0, 10.0])), "ntheta": draw(st.integers(4, 7)), "nz": 1,
            "A": draw(st.sampled_from([-1.0, -0.5, -2.0])),
            "B": {"kind": "poly", "c": draw(st.lists(st.floats(-1, 1), min_size=1, max_size=2))},
            "C": {"kind": "const", "v": draw(st.floats(0.5, 2))}, "D": {"kind": "const", "v": draw(st.floats(-1, -0.1))},
            "E": {"kind": "const", "v": 1.0},
            "lside": draw(st.sampled_from(["D", "N"])), "uside": draw(st.sampled_from(["D", "N"])),
            "mix": draw(st.lists(st.floats(-2, 2), min_size=6, max_size=6)), "P": 1, "schedule": [],
            "extra": draw(st.integers(0, 3))}


def manu_pred(c):
    """phi* polynomial of degree <= p satisfying the boundary conditions => reproduced at the nodes."""
    p = c["p"]
    c = dict(c)
    c["qdeg"] = 2 * p + 3 + c["extra"]
    nq = c["ntheta"]
    mv = np.fft.fftfreq(nq, 1.0 / nq)
    c["lN"] = [int(m) for m in mv] if c["lside"] == "N" else []
    c["uN"] = [int(m) for m in mv] if c["uside"] == "N" else []
    c["kind"] = "discrete"
    space = space_of(c)
    rb = bspl.make_basis(space)
    r = np.asarray(rb.greville, dtype=float)
    a, b = c["rmin"], c["rmax"]
    L = b - a
    # polynomial in s with constraints: Dirichlet phi=0, Neumann phi'=0 at each end
    P_ = np.polynomial.polynomial
    rows = []
    for side, s0 in ((c["lside"], 0.0), (c["uside"], 1.0)):
        if side == "D":
            rows.append([s0 ** k for k in range(p + 1)])
        else:
            rows.append([k * s0 ** (k - 1) if k > 0 else 0.0 for k in range(p + 1)])
    Mx = np.array(rows)
    _, sv, Vt = np.linalg.svd(Mx)
    null = Vt[len(sv):]                                   # (p-1, p+1)
    if null.shape[0] == 0:
        raise Inconclusive("no admissible polynomial")
    coef = (np.array(c["mix"][:null.shape[0]]) @ null)
    if np.abs(coef).max() < 1e-6:
        coef = null[0]
    phis = lambda x: P_.polyval((x - a) / L, coef)                     # noqa
    d1 = lambda x: P_.polyval((x - a) / L, P_.polyder(coef)) / L        # noqa
    d2 = lambda x: P_.polyval((x - a) / L, P_.polyder(coef, 2)) / L ** 2 if p >= 2 else 0 * x   # noqa
    Bf, Cf, Df = fem.make_func(c["B"], a, b), fem.make_func(c["C"], a, b), fem.make_func(c["D"], a, b)
    shape = (len(r), nq, 1)
    R = np.empty(shape, dtype=complex)
    for I in range(nq):
        R[:, I, 0] = c["A"] * d2(r) + Bf(r) * d1(r) + Cf(r) * phis(r) - mv[I] ** 2 * Df(r) * phis(r)
    res, w = run_world(1, _rank, (c, [R]), key="C14")
    sol = sim.assemble([rk[0] for rk in res], shape, "phi")
    dense = fem.DenseFEM(space, rb, c["qdeg"], lambda x: c["A"] + 0 * x, Bf, Cf, Df, lambda x: 1.0 + 0 * x)
    worst = 1.0
    for I in range(nq):
        _, cond = dense.solve_discrete(R[:, I, 0], r, mv[I] ** 2, c["lside"] == "N", c["uside"] == "N")
        worst = max(worst, cond)
    if worst > 1e10:
        raise Inconclusive("ill-conditioned")
    want = phis(r)
    scale = float(np.abs(want).max()) + float(np.abs(R).max()) + 1e-300
    tol = 1e4 * EPS * worst * scale
    err = np.abs(sol[:, :, 0] - want[:, None]).max()
    if not err <= tol:
        raise Violation("C14:manufactured", "degree-%d polynomial solution with %s/%s conditions missed by %.3e (tol %.3e, cond %.1e)"
                        % (p, c["lside"], c["uside"], err, tol, worst))
    return {"nontrivial": True, "labels": ["%s%s" % (c["lside"], c["uside"]), "deg%d" % p]}


SUBS = {"galerkin": Sub(predicate, strategy=cases), "manufactured": Sub(manu_pred, strategy=manu_cases)}


def jobs(tier):
    n1, n2 = (14, 10) if tier == "quick" else (1800, 900)
    return ([{"sub": "galerkin", "n": n1, "shard": i} for i in range(12)] +
            [{"sub": "manufactured", "n": n2, "shard": i} for i in range(4)])
