"""
C16 -- Density is the exact velocity integral of the interpolated distribution.
"""
import warnings

import numpy as np
from hypothesis import strategies as st

from .. import gen, sim, gridref
from ..harness import Sub, Violation, Inconclusive, run_world, crash_is_violation, interpreted_kernels
from ..oracles import bspl, advect

PROPERTY = "C16"
HANG_SECONDS = 400.0
LINE_BUDGET = 1000000000
RULE = ("(kernel) Hypothesis-generated v spaces (4-16 points, uniform cubic, or general degree 1-5 on uniform / "
        "non-uniform breaks), arbitrary distributions, polynomial-in-v profiles of degree <= p, float and complex density "
        "storage: get_rho / get_perturbed_rho with the real quadrature coefficients vs sum_j c_j int B_j (c from an "
        "independent collocation solve, exact Gauss-Legendre integrals), analytic integrals of polynomials, linearity, "
        "perturbed density of the tabulated equilibrium exactly 0.  (grid) DensityFinder.getRho/getPerturbedRho on "
        "simulated worlds over generated process grids vs the global reference with the equilibrium of each point's own "
        "GLOBAL radius; each density grid is pre-filled with a sentinel, and a second finder built from the same velocity "
        "spline object is used before the first one is used again.  Non-trivial = non-polynomial f (kernel); r split over >=2 ranks (a block not starting at "
        "radius 0) (grid).")
ASSUMPTIONS = ["condition-aware tolerance; cond > 1e10 inconclusive", "simulated MPI for the grid-level sub-check"]

EPS = np.finfo(float).eps


def init_worker(tier):
    warnings.simplefilter("ignore")
    sim.install()


@st.composite
def kernel_cases(draw, tier):
    if draw(st.booleans()):
        space = draw(gen.spline_space(cubic_uniform=True, periodic=False, min_cells=1, max_cells=13))
    else:
        space = draw(gen.spline_space(max_degree=5, periodic=False, min_cells=1, max_cells=12, cubic_uniform=False))
    n, m, p_ = draw(st.integers(1, 3)), draw(st.integers(1, 3)), draw(st.integers(1, 3))
    return {"space": space, "shape": [n, m, p_], "seed": draw(st.integers(0, 2 ** 16)),
            "poly": draw(st.lists(st.floats(-3, 3), min_size=1, max_size=space["degree"] + 1)),
            "complex": draw(st.booleans()), "alpha": draw(st.floats(-2, 2)), "kind": draw(st.sampled_from(["noise", "poly"]))}


def kernel_pred(c):
    from pygyro.splines.spline_interpolators import SplineInterpolator1D
    from pygyro.poisson.poisson_tools import get_rho, get_perturbed_rho
    space = c["space"]
    with crash_is_violation("C16:build", "building the v space"):
        basis = bspl.make_basis(space)
        w = np.asarray(SplineInterpolator1D(basis).get_quadrature_coefficients(), dtype=float)
    ref = bspl.Ref(space, basis)
    v = np.asarray(basis.greville, dtype=float)
    # the weights and the equilibrium table as the DensityFinder itself holds them for this (possibly graded, possibly
    # asymmetric) velocity space -- what getRho / getPerturbedRho hand to the kernels
    from pygyro.poisson.poisson_solver import DensityFinder
    from pygyro.initialisation.constants import Constants
    radii = np.array([0.5, 3.0, 7.3, 12.0])
    if c["seed"] % 2 and interpreted_kernels():
        radii = np.array([1, 3, 7, 12])            # radial coordinates stored as integers (interpreted kernels only)
    consts = Constants()
    with crash_is_violation("C16:build", "building the DensityFinder"):
        df = DensityFinder(6, basis, [radii, None, None, v], consts)
    wd = getattr(df, "_quad_coeffs", None)
    if wd is not None:
        wd = np.asarray(wd, dtype=float)
        if wd.shape != w.shape or np.abs(wd - w).max() > 64 * EPS * float(np.abs(w).max()):
            raise Violation("C16:kernel:finder-weights", "DensityFinder holds quadrature weights differing from those of the "
                            "interpolator of its own velocity space by %.3e" % (np.abs(wd - w).max() if wd.shape == w.shape else np.inf))
    tab = getattr(df, "_fEq", None)
    if tab is not None:
        want_tab = advect.f_eq(radii.astype(float)[:, None], v[None, :], advect.const_dict(consts))
        if np.shape(tab) != want_tab.shape or not (np.abs(tab - want_tab) <= 1e-13 * np.abs(want_tab) + 1e-300).all():
            raise Violation("C16:kernel:finder-equilibrium", "DensityFinder's equilibrium table differs from f_eq(r, v) on its own "
                            "(r, v) grid")
    A = bspl.collocation(ref, v)
    cond = np.linalg.cond(A)
    if cond > 1e10:
        raise Inconclusive("ill-conditioned collocation")
    ints = ref.integrals()
    nv = len(v)
    n, m, p_ = c["shape"]
    rng = np.random.default_rng(c["seed"])
    a, b = space["breaks"][0], space["breaks"][-1]
    L = b - a
    if c["kind"] == "poly":
        prof = np.polynomial.polynomial.polyval((v - a) / L, c["poly"])
        f = np.tile(prof, (n, m, p_, 1)) * (1.0 + np.arange(n * m * p_).reshape(n, m, p_, 1))
    else:
        f = rng.standard_normal((n, m, p_, nv)) * 3.0
    g = rng.standard_normal((n, m, p_, nv))
    feq = np.abs(rng.standard_normal((n, nv))) + 0.1
    dt = np.complex128 if c["complex"] else np.float64
    scale = float(np.abs(f).max()) + 1e-300
    # lengths are differences of coordinates: one ulp of max|x| per breakpoint is inherent (cf. C09)
    coord = 16 * EPS * max(abs(a), abs(b)) * (len(space["breaks"]) + 1)
    tol = (1e3 * EPS * cond * L + coord * cond) * scale * nv

    def exact(F):
        coef = np.linalg.solve(A, F.reshape(-1, nv).T)          # (nb, N)
        return (ints @ coef).reshape(F.shape[:-1])
    rho = np.full((n, m, p_), np.nan, dtype=dt)
    with crash_is_violation("C16:kernel", "get_rho"):
        get_rho(rho, f, w)
    if np.abs(rho - exact(f)).max() > tol:
        raise Violation("C16:kernel:rho", "get_rho differs from the exact integral of the interpolant by %.3e (tol %.3e)"
                        % (np.abs(rho - exact(f)).max(), tol))
    if c["kind"] == "poly":
        P_ = np.polynomial.polynomial
        ana = (P_.polyval(1.0, P_.polyint(c["poly"])) - P_.polyval(0.0, P_.polyint(c["poly"]))) * L
        want = ana * (1.0 + np.arange(n * m * p_).reshape(n, m, p_))
        if np.abs(rho - want).max() > tol + 1e3 * EPS * cond * np.abs(want).max():
            raise Violation("C16:kernel:polynomial", "degree-%d polynomial profile: density %r, analytic integral %r"
                            % (len(c["poly"]) - 1, rho.flat[0], want.flat[0]))
    rp = np.full((n, m, p_), np.nan, dtype=dt)
    with crash_is_violation("C16:kernel", "get_perturbed_rho"):
        get_perturbed_rho(rp, feq, f, w)
    want = exact(f - feq[:, None, None, :])
    if np.abs(rp - want).max() > tol + (1e3 * EPS * cond * L + coord * cond) * float(np.abs(feq).max()) * nv:
        raise Violation("C16:kernel:perturbed", "get_perturbed_rho differs from the exact integral of interp(f - f_eq) by %.3e"
                        % np.abs(rp - want).max())
    # equilibrium -> exactly zero
    z = np.full((n, m, p_), np.nan, dtype=dt)
    get_perturbed_rho(z, feq, np.tile(feq[:, None, None, :], (1, m, p_, 1)), w)
    if np.any(z != 0):
        raise Violation("C16:kernel:equilibrium", "perturbed density of the equilibrium is %r, not exactly 0" % z.flat[0])
    # linearity
    r2 = np.empty((n, m, p_), dtype=dt)
    r3 = np.empty((n, m, p_), dtype=dt)
    get_rho(r2, g, w)
    get_rho(r3, f + c["alpha"] * g, w)
    s2 = scale + abs(c["alpha"]) * float(np.abs(g).max())
    if np.abs(r3 - (rho + c["alpha"] * r2)).max() > 2 * (1e3 * EPS * cond * L + coord * cond) * s2 * nv + 1e-290:
        raise Violation("C16:kernel:linearity", "rho(f+a g) - rho(f) - a rho(g) = %.3e" % np.abs(r3 - (rho + c["alpha"] * r2)).max())
    return {"nontrivial": c["kind"] == "noise", "labels": ["cu" if basis.cubic_uniform else "nu", c["kind"],
                                                          "complex" if c["complex"] else "float"], "evals": 5}


# ----------------------------------------------------------------------------------------------
@st.composite
def grid_cases(draw, tier):
    cfg = draw(sim.sim_config(tier))
    maxP = 6 if tier == "quick" else 12
    grids = sim.admissible_grids(cfg["npts"], maxP)
    rsplit = [g for g in grids if g[0] > 1]
    g = draw(st.sampled_from(rsplit if rsplit and draw(st.integers(0, 3)) > 0 else grids))
    return {"cfg": cfg, "nprocs": g, "seed": draw(st.integers(0, 2 ** 16)), "complex": draw(st.booleans()),
            "blob": [draw(st.floats(0, 0.999)) for _ in range(3)], "schedule": draw(gen.schedules(8))}


def blob_field(c, F):
    """A distribution supported on one (r, theta, z) line only: most processes then hold an identically zero block."""
    F2 = np.zeros_like(F)
    i, j, k = (int(fr * n) for fr, n in zip(c["blob"], F.shape[:3]))
    F2[i, j, k, :] = F[i, j, k, :]
    return F2


def _grid_rank(ctx, c):
    from pygyro.poisson.poisson_solver import DensityFinder
    from pygyro.model.layout import getLayoutHandler
    from pygyro.model.grid import Grid
    cfg = c["cfg"]
    # an earlier, unrelated set-up in the same process (another velocity domain), used once and then released: whatever
    # the library remembers about it must not reach the objects built afterwards
    import gc
    old = dict(cfg, phys=dict(cfg.get("phys", {}), vMax=4.0, vMin=-3.5))
    g0, c0 = sim.setup_distrib(ctx.comm, old, "v_parallel", c["nprocs"], save=False)
    d0 = DensityFinder(6, g0.getSpline(3), g0.eta_grid, c0)
    del d0, g0, c0
    gc.collect()
    f, consts = sim.setup_distrib(ctx.comm, cfg, "v_parallel", c["nprocs"], save=False)
    eta = f.eta_grid
    F = sim.equilibrium_like_field(cfg, eta, c["seed"])
    rem = getLayoutHandler(ctx.comm, {'v_parallel_2d': [0, 2, 1], 'mode_solve': [1, 2, 0]}, list(c["nprocs"]), eta[:3])
    rho = Grid(eta[:3], [f.getSpline(i) for i in range(3)], rem, 'v_parallel_2d', ctx.comm,
               dtype=np.complex128 if c["complex"] else float)
    df = DensityFinder(6, f.getSpline(3), eta, consts)
    out = {}
    stale = (7.5 - 3.25j) if c["complex"] else 7.5         # whatever the grid held before must not survive
    rho.getAllData()[:] = stale
    df.getPerturbedRho(f, rho)                 # of the initial condition
    out["init_pert"] = sim.piece(rho)
    sim.fill(f, F)
    rho.getAllData()[:] = stale
    df.getPerturbedRho(f, rho)
    out["pert"] = sim.piece(rho)
    rho.getAllData()[:] = stale
    df.getRho(f, rho)
    out["full"] = sim.piece(rho)
    # a second finder built from the same velocity spline object, then the first one again: neither may disturb
    # the other (they share the BSplines object and whatever it caches)
    df2 = DensityFinder(6, f.getSpline(3), eta, consts)
    rho.getAllData()[:] = stale
    df2.getPerturbedRho(f, rho)
    out["pert_second_finder"] = sim.piece(rho)
    rho.getAllData()[:] = stale
    df.getPerturbedRho(f, rho)
    out["pert_first_again"] = sim.piece(rho)
    # distributions that vanish on whole blocks: a single (r, theta, z) line, and the zero distribution (whose perturbed
    # density is minus the equilibrium density)
    for name, G in (("blob", blob_field(c, F)), ("zero", np.zeros_like(F))):
        sim.fill(f, G)
        rho.getAllData()[:] = stale
        df.getPerturbedRho(f, rho)
        out["pert_" + name] = sim.piece(rho)
        rho.getAllData()[:] = stale
        df.getRho(f, rho)
        out["full_" + name] = sim.piece(rho)
    return out


def grid_pred(c):
    from ..simmpi import core
    cfg = c["cfg"]
    P = c["nprocs"][0] * c["nprocs"][1]
    res, w = run_world(P, _grid_rank, (c,), schedule=c["schedule"], key="C16:grid")
    shape = tuple(cfg["npts"][:3])
    g, consts = sim.setup_distrib(core.COMM_WORLD, cfg, "v_parallel", [1, 1], save=False)
    eta = g.eta_grid
    ref = gridref.GridRef(eta, [g.getSpline(i) for i in range(4)], consts)
    F = sim.equilibrium_like_field(cfg, eta, c["seed"])
    pert = ref.rho(F, True)
    for name, want in (("pert", pert), ("full", ref.rho(F, False)), ("init_pert", ref.rho(ref.init_f(), True)),
                       ("pert_second_finder", pert), ("pert_first_again", pert),
                       ("pert_blob", ref.rho(blob_field(c, F), True)), ("full_blob", ref.rho(blob_field(c, F), False)),
                       ("pert_zero", ref.rho(np.zeros_like(F), True)), ("full_zero", ref.rho(np.zeros_like(F), False))):
        got = sim.assemble([r[name] for r in res], shape, name)
        scale = float(np.abs(ref.rho(F, False)).max())
        err = np.abs(got - want)
        if not (err <= 1e-11 * scale).all():
            idx = tuple(int(x) for x in np.argwhere(~(err <= 1e-11 * scale))[0])
            raise Violation("C16:grid:" + name, "process grid %s: density '%s' at global (r,theta,z)=%s is %r, reference with the "
                            "equilibrium of global radius %d gives %r" % (c["nprocs"], name, idx, got[idx], idx[0], want[idx]))
    return {"nontrivial": c["nprocs"][0] > 1, "labels": ["P=%d" % P, "complex" if c["complex"] else "float",
                                                          "r-split" if c["nprocs"][0] > 1 else "r-whole"], "evals": 9}


SUBS = {"kernel": Sub(kernel_pred, strategy=kernel_cases), "grid": Sub(grid_pred, strategy=grid_cases)}


def jobs(tier):
    n1, n2 = (100, 8) if tier == "quick" else (20000, 1200)
    return ([{"sub": "kernel", "n": n1, "shard": i} for i in range(6)] +
            [{"sub": "grid", "n": n2, "shard": i} for i in range(10)])
