"""
C02 -- Block decomposition is an exact balanced partition; accessors agree with it.
"""
import warnings

import numpy as np
from hypothesis import strategies as st

from .. import gen, managers as mg
from ..harness import Sub, Violation, run_world, crash_is_violation
from ..oracles import globalarr as ga

PROPERTY = "C02"
HANG_SECONDS = 1200.0
LINE_BUDGET = 5000000000
RULE = ("(box) exhaustive: every 1<=p<=n<=N through the real Layout constructor for every rank coordinate, "
        "checked against pure tiling predicates (starts[0]=0, ends[r]=starts[r+1], last end=n, lengths in "
        "{floor(n/p),ceil(n/p)} with exactly n mod p long ones, shape/size/max_block_shape/mpi_starts/"
        "mpi_lengths mutually consistent and identical from every rank's point of view); (multi) Hypothesis "
        "multi-dimensional Layouts (random dims_order, nprocs, n up to 1e4) incl. the product-space tiling; "
        "(accessors) real Grids on simulated worlds with handler and swapper managers: getCoords/getEta/"
        "getCoordVals/getGlobalIdxVals/getGlobalIndices/get1DSlice/get2DSlice against the global-array model "
        "for every layout, and bufferSize >= every layout's block.  Non-trivial = n mod p != 0 with p>=2 "
        "(box/multi); a rank whose block does not start at 0 (accessors).")
ASSUMPTIONS = ["simulated MPI for the accessor sub-check", "1 <= p <= n for every distributed dimension (callers guarantee it)"]

BOX = {"quick": 96, "thorough": 560}


def init_worker(tier):
    warnings.simplefilter("ignore")


def _check_dim(n, p, per_rank, what):
    """per_rank: list over ranks r of dict(start,end,shape,max,mpi_starts,mpi_lengths)."""
    lo, hi = n // p, -(-n // p)
    nlong = n % p
    starts = [d["start"] for d in per_rank]
    ends = [d["end"] for d in per_rank]
    if starts[0] != 0:
        raise Violation("C02:partition", "%s: first block starts at %d" % (what, starts[0]))
    if ends[-1] != n:
        raise Violation("C02:partition", "%s: last block ends at %d, extent %d" % (what, ends[-1], n))
    for r in range(p - 1):
        if ends[r] != starts[r + 1]:
            raise Violation("C02:partition", "%s: gap/overlap between rank %d (end %d) and rank %d (start %d)"
                            % (what, r, ends[r], r + 1, starts[r + 1]))
    lens = [e - s for s, e in zip(starts, ends)]
    if any(l not in (lo, hi) for l in lens) or sum(1 for l in lens if l == hi and hi != lo) != nlong:
        raise Violation("C02:unbalanced", "%s: block lengths %s, expected %d blocks of %d and the rest %d"
                        % (what, lens, nlong, hi, lo))
    for r, d in enumerate(per_rank):
        if d["shape"] != lens[r]:
            raise Violation("C02:shape", "%s rank %d: shape %d but range length %d" % (what, r, d["shape"], lens[r]))
        if d["max"] != max(lens):
            raise Violation("C02:max-block-shape", "%s rank %d: max_block_shape %d, largest block %d"
                            % (what, r, d["max"], max(lens)))
        if list(d["mpi_starts"]) != starts or list(d["mpi_lengths"]) != lens:
            raise Violation("C02:mpi-tables", "%s rank %d advertises starts %s lengths %s, ranks really own starts %s lengths %s"
                            % (what, r, list(d["mpi_starts"]), list(d["mpi_lengths"]), starts, lens))


def box_slab(case):
    from pygyro.model.layout import Layout
    n = case["n"]
    eta = [np.arange(n, dtype=float)]
    evals = nontriv = 0
    with crash_is_violation("C02:layout", "Layout constructor"):
        for p in range(1, n + 1):
            per = []
            for r in range(p):
                l = Layout("x", [p], [0], eta, [r])
                per.append({"start": int(l.starts[0]), "end": int(l.ends[0]), "shape": int(l.shape[0]),
                            "max": int(l.max_block_shape[0]), "mpi_starts": [int(x) for x in l.mpi_starts(0)],
                            "mpi_lengths": [int(x) for x in l.mpi_lengths(0)]})
                if int(l.size) != per[-1]["shape"] or int(l.max_block_size) != per[-1]["max"]:
                    raise Violation("C02:size", "n=%d p=%d r=%d: size %s / max_block_size %s inconsistent with shape"
                                    % (n, p, r, l.size, l.max_block_size))
                if tuple(l.fullShape) != (n,):
                    raise Violation("C02:fullShape", "n=%d p=%d: fullShape %s" % (n, p, l.fullShape))
            _check_dim(n, p, per, "n=%d p=%d" % (n, p))
            evals += 1
            if p >= 2 and n % p:
                nontriv += 1
    return {"evals": evals, "nontrivial_count": nontriv, "sample": {"n": n, "p": "1..n, every rank coordinate"}}


def box_enum(tier, shard, nshards):
    N = BOX[tier]
    for n in range(1, N + 1):
        if (n - 1) % nshards == shard:
            yield {"n": n}


@st.composite
def multi_cases(draw, tier):
    ndims = draw(st.integers(1, 4))
    perm = list(draw(st.permutations(list(range(ndims)))))
    ndist = draw(st.integers(1, min(3, ndims)))
    nprocs = [draw(st.sampled_from([1, 2, 3, 4, 5, 7, 8, 16, 31])) for _ in range(ndist)]
    ext = [1] * ndims
    for i in range(ndims):
        d = perm[i]
        p = nprocs[i] if i < ndist else 1
        kind = draw(st.integers(0, 4))
        if kind == 0:
            n = p
        elif kind == 1:
            n = p + 1
        elif kind == 2:
            n = 2 * p + draw(st.sampled_from([-1, 0, 1]))
        elif kind == 3:
            n = draw(st.integers(p, max(p, 64)))
        else:
            n = draw(st.integers(p, 10 ** 4))
        ext[d] = max(n, p, 1)
    return {"ext": ext, "perm": perm, "nprocs": nprocs}


def multi_pred(case):
    from pygyro.model.layout import Layout
    ext, perm, nprocs = case["ext"], case["perm"], case["nprocs"]
    ndims = len(ext)
    eta = [np.arange(n, dtype=float) for n in ext]
    nontriv = False
    with crash_is_violation("C02:layout", "Layout constructor"):
        inv = None
        for i, p in enumerate(nprocs):
            n = ext[perm[i]]
            per = []
            for r in range(p):
                coords = [0] * len(nprocs)
                coords[i] = r
                l = Layout("L", list(nprocs), list(perm), eta, coords)
                per.append({"start": int(l.starts[i]), "end": int(l.ends[i]), "shape": int(l.shape[i]),
                            "max": int(l.max_block_shape[i]), "mpi_starts": [int(x) for x in l.mpi_starts(i)],
                            "mpi_lengths": [int(x) for x in l.mpi_lengths(i)]})
                if tuple(l.fullShape) != tuple(ext[d] for d in perm):
                    raise Violation("C02:fullShape", "fullShape %s for extents %s order %s" % (l.fullShape, ext, perm))
                if tuple(l.dims_order) != tuple(perm):
                    raise Violation("C02:dims-order", "dims_order %s != %s" % (l.dims_order, perm))
                inv = l.inv_dims_order
                if [perm[j] for j in inv] != list(range(ndims)) or [inv[d] for d in perm] != list(range(ndims)):
                    raise Violation("C02:inv-dims-order", "inv_dims_order %s is not the inverse of %s" % (inv, perm))
                if int(l.size) != int(np.prod([int(s) for s in l.shape], dtype=object)):
                    raise Violation("C02:size", "size %s != prod(shape %s)" % (l.size, l.shape))
                if int(l.max_block_size) != int(np.prod([int(s) for s in l.max_block_shape], dtype=object)):
                    raise Violation("C02:size", "max_block_size %s != prod(%s)" % (l.max_block_size, l.max_block_shape))
                for j in range(ndims):
                    pj = nprocs[j] if j < len(nprocs) else 1
                    if pj == 1 and (int(l.starts[j]) != 0 or int(l.ends[j]) != ext[perm[j]] or int(l.shape[j]) != ext[perm[j]]):
                        raise Violation("C02:undistributed", "undistributed position %d: range [%d,%d) shape %d, extent %d"
                                        % (j, l.starts[j], l.ends[j], l.shape[j], ext[perm[j]]))
                if list(l.nprocs) != list(nprocs) + [1] * (ndims - len(nprocs)):
                    raise Violation("C02:nprocs", "nprocs %s" % (l.nprocs,))
            _check_dim(n, p, per, "ext=%s perm=%s nprocs=%s position %d" % (ext, perm, nprocs, i))
            if p >= 2 and n % p:
                nontriv = True
    return {"nontrivial": nontriv, "labels": ["ndims=%d" % ndims, "ndist=%d" % len(nprocs)]}


# ----------------------------------------------------------------------------------------------
@st.composite
def acc_cases(draw, tier):
    if draw(st.integers(0, 2)) == 0:
        cfg = draw(mg.swapper_config(tier, max_extent=7))
    else:
        cfg = draw(mg.handler_config(tier, min_dims=3, max_extent=7, connected_only=True))
    names = [n for n, _ in mg.all_layouts(cfg)]
    start = cfg["start"] if cfg["kind"] == "swapper" else draw(st.sampled_from(names))
    visit = draw(st.lists(st.sampled_from(names), min_size=0, max_size=4))
    # some visits are detours: save here, move to that layout, restore (the grid is back where it saved) -- the
    # accessors must describe the restored layout
    detours = draw(st.lists(st.booleans(), min_size=len(visit), max_size=len(visit)))
    visit = [{"detour": n} if d else n for n, d in zip(visit, detours)]
    fr = draw(st.lists(st.lists(st.floats(0, 0.999), min_size=4, max_size=4), min_size=1, max_size=3))
    return {"cfg": cfg, "start": start, "visit": visit, "fracs": fr, "figure": draw(st.sampled_from([0, 0, 1, 2, 5])),
            "dtype": draw(st.sampled_from(["float64", "complex128"])), "schedule": draw(gen.schedules(8))}


def _acc_rank(ctx, case):
    from pygyro.model.grid import Grid
    cfg = case["cfg"]
    try:
        man = mg.build(ctx.comm, cfg)
    except mg.Refused as e:
        return ("refused", str(e))
    shape = cfg["shape"]
    nd = len(shape)
    eta = mg.eta_grids(shape)
    G = ga.global_array(shape, case["dtype"])
    grid = Grid(eta, [None] * nd, man, case["start"], ctx.comm, dtype=ga.DTYPES[case["dtype"]],
                allocateSaveMemory=any(isinstance(v, dict) for v in case["visit"]))
    l0 = grid.getLayout(case["start"])
    grid.getAllData()[:] = ga.block(G, l0.dims_order, l0.starts, l0.ends)
    bs = int(man.bufferSize)
    offset_block = False
    for n, _ in mg.all_layouts(cfg):
        if int(grid.getLayout(n).size) > bs:
            raise Violation("C02:buffer-too-small", "bufferSize %d < block size %d of layout %s"
                            % (bs, grid.getLayout(n).size, n))
    for name in [case["start"]] + list(case["visit"]):
        if isinstance(name, dict):
            back = grid.currentLayout
            grid.saveGridValues()
            if name["detour"] != back:
                grid.setLayout(name["detour"])
            grid.restoreGridValues()
            if grid.currentLayout != back:
                raise Violation("C02:restore-layout", "saved in %s, restored grid reports layout %s" % (back, grid.currentLayout))
            name = back
        elif name != grid.currentLayout:
            grid.setLayout(name)
        if case.get("figure"):
            # a plotting gather (a read-only service of the grid) before the accessors are examined
            grid.getBlockFromDict({}, ctx.comm, case["figure"] % ctx.size)
        l = grid.getLayout(name)
        order = list(l.dims_order)
        starts = [int(x) for x in l.starts]
        ends = [int(x) for x in l.ends]
        if any(s > 0 for s in starts):
            offset_block = True
        f = grid.getAllData()
        if tuple(f.shape) != tuple(e - s for s, e in zip(starts, ends)):
            raise Violation("C02:data-shape", "getAllData().shape %s vs ranges %s..%s" % (f.shape, starts, ends))
        with crash_is_violation("C02:accessor", "grid accessor in layout %s" % name):
            for i in range(nd):
                want = eta[order[i]][starts[i]:ends[i]]
                got = list(grid.getCoords(i))
                if [k for k, _ in got] != list(range(len(want))) or not np.array_equal([v for _, v in got], want):
                    raise Violation("C02:getCoords", "layout %s axis %d rank %d" % (name, i, ctx.rank))
                if not np.array_equal(grid.getCoordVals(i), want):
                    raise Violation("C02:getCoordVals", "layout %s axis %d rank %d" % (name, i, ctx.rank))
                if list(grid.getGlobalIdxVals(i)) != list(range(starts[i], ends[i])):
                    raise Violation("C02:getGlobalIdxVals", "layout %s axis %d rank %d: %s" % (
                        name, i, ctx.rank, list(grid.getGlobalIdxVals(i))))
                # getEta(i): local coordinates of *global* dimension i
                pos = order.index(i)
                wante = eta[i][starts[pos]:ends[pos]]
                gote = list(grid.getEta(i))
                if [k for k, _ in gote] != list(range(len(wante))) or not np.array_equal([v for _, v in gote], wante):
                    raise Violation("C02:getEta", "layout %s global dim %d rank %d" % (name, i, ctx.rank))
            if list(grid.nGlobalCoords) != list(shape):
                raise Violation("C02:nGlobalCoords", "%s vs %s" % (grid.nGlobalCoords, shape))
            # local -> global indices at generated positions (+ both corners)
            fr = [[0.0] * 4, [0.9999] * 4] + [list(x) for x in case["fracs"]]
            for fv in fr:
                loc = [min(int(fv[i] * f.shape[i]), f.shape[i] - 1) for i in range(nd)]
                glob = grid.getGlobalIndices(*loc)
                if len(glob) != nd:
                    raise Violation("C02:getGlobalIndices", "returned %s for %s" % (glob, loc))
                want = [0] * nd
                for i in range(nd):
                    want[order[i]] = loc[i] + starts[i]
                if [int(x) for x in glob] != want:
                    raise Violation("C02:getGlobalIndices", "layout %s local %s -> %s, expected %s (rank %d)"
                                    % (name, loc, list(glob), want, ctx.rank))
                if f[tuple(loc)] != G[tuple(int(x) for x in glob)]:
                    raise Violation("C02:getGlobalIndices", "layout %s: element at local %s is not G%s" % (name, loc, glob))
                s1 = grid.get1DSlice(*loc[:-1])
                if s1.shape != (f.shape[-1],) or not ga.bits_equal(s1, f[tuple(loc[:-1])]):
                    raise Violation("C02:get1DSlice", "layout %s at %s: shape %s" % (name, loc[:-1], s1.shape))
                if nd >= 3:
                    s2 = grid.get2DSlice(*loc[:-2])
                    if s2.shape != f.shape[-2:] or not ga.bits_equal(s2, f[tuple(loc[:-2])]):
                        raise Violation("C02:get2DSlice", "layout %s at %s: shape %s" % (name, loc[:-2], s2.shape))
    return ("ok", offset_block)


def acc_pred(case):
    cfg = case["cfg"]
    P = mg.nranks_cfg(cfg)
    res, w = run_world(P, _acc_rank, (case,), schedule=case.get("schedule", ()), key="C02:acc")
    kinds = {r[0] for r in res}
    if kinds == {"refused"}:
        return {"nontrivial": False, "labels": ["refused"]}
    if kinds != {"ok"}:
        raise Violation("C02:divergent-refusal", "some ranks refused, others accepted")
    off = any(r[1] for r in res)
    labels = [cfg["kind"], "P=%d" % P]
    if any(isinstance(v, dict) for v in case["visit"]):
        labels.append("save-detour-restore")
    return {"nontrivial": off, "labels": labels, "evals": 1 + len(case["visit"])}


SUBS = {"box": Sub(box_slab, enumerate=box_enum, exhaustive=True),
        "multi": Sub(multi_pred, strategy=multi_cases),
        "accessors": Sub(acc_pred, strategy=acc_cases)}


def jobs(tier):
    nm, na = (400, 100) if tier == "quick" else (20000, 6000)
    return ([{"sub": "box", "shard": i, "nshards": 16} for i in range(16)] +
            [{"sub": "multi", "n": nm, "shard": i} for i in range(8)] +
            [{"sub": "accessors", "n": na, "shard": i} for i in range(16)])


def coverage_extra(tier):
    N = BOX[tier]
    return {"box": {"n_max": N, "pairs": N * (N + 1) // 2}}
