"""
C05 -- Simulation results do not depend on the process decomposition.
"""
import os
import sys
import warnings

import numpy as np
from hypothesis import strategies as st

from .. import gen, sim, gridref
from ..harness import Sub, Violation, run_world
from ..oracles import globalarr as ga

PROPERTY = "C05"
HANG_SECONDS = 900.0
LINE_BUDGET = 20000000000
RULE = ("(operators) Hypothesis-generated simulation configurations (npts r,v 5-7, theta 6-8, z 7-9; rotational "
        "transform 0 / +-0.8; R0, perturbation modes, integer dt) and generic global fields (equilibrium x (1 + low "
        "modes + seeded noise); generic potentials).  Each grid-level operator (three initialisers, flux-surface "
        "gridStep, v-parallel gridStep and gridStepKeepGradient, poloidal gridStep, parallel gradient per radius, "
        "perturbed density, quasi-neutrality pipeline, and one complete Strang step) is run on the serial world and on "
        "generated admissible process grids (explicit grids and setupCylindricalGrid's own choice) under generated "
        "schedules; the assembled GLOBAL results must agree with the serial ones to 1e-12 (bitwise expected) and, on "
        "the serial world, with the per-slice operator references evaluated at every slice's own global coordinates. "
        "(driver) the real fullSimulation.main() (simulated MPI + mpio-emulating h5py, scratch cwd) for 1-2 steps in "
        "worlds of 1..6 ranks: final grid_*.h5 / phi_*.h5 agree.  Non-trivial = the compared dimension is split over "
        ">=2 ranks and the operator's per-slice parameter varies along it (iota != 0 for the flux step).")
ASSUMPTIONS = ["simulated MPI / h5py front (pgv.simmpi, pgv.simh5)", "integer dt; rotational transform constant in r",
               "serial-vs-reference comparison excludes poloidal nodes whose foot is within rounding distance of the "
               "radial boundary"]
TIMEOUT = {"quick": 3600, "thorough": 8 * 3600}
RTOL = 1e-12


def init_worker(tier):
    warnings.simplefilter("ignore")
    sim.install()


@st.composite
def op_cases(draw, tier):
    cfg = draw(sim.sim_config(tier))
    maxP = 6 if tier == "quick" else 12
    grids = [g for g in sim.admissible_grids(cfg["npts"], maxP) if g[0] * g[1] >= 2]
    k = 2 if tier == "quick" else 4
    both = [g for g in grids if g[0] > 1 and g[1] > 1]
    chosen = []
    if both:
        chosen.append(draw(st.sampled_from(both)))
    chosen += draw(st.lists(st.sampled_from(grids), min_size=1, max_size=k, unique_by=tuple))
    uniq = []
    for g in chosen:
        if g not in uniq:
            uniq.append(g)
    own = draw(st.sampled_from([2, 3, 4, 6] if tier == "quick" else [2, 3, 4, 5, 6, 8, 9, 12]))
    return {"cfg": cfg, "grids": uniq[:k + 1], "ownP": own, "seed": draw(st.integers(0, 2 ** 16)),
            "schedule": draw(gen.schedules(10)), "start": draw(st.sampled_from(list(sim.STD_LAYOUTS)))}


# ----------------------------------------------------------------------------------------------
def _scenario(ctx, case, nprocs):
    """Runs on every rank; returns {name: piece}."""
    cfg = case["cfg"]
    out = {}
    # (1) the three initialisers
    for lay in sim.STD_LAYOUTS:
        g, consts = sim.setup_distrib(ctx.comm, cfg, lay, nprocs, save=False)
        out["init_" + lay] = sim.piece(g)
    rs = sim.RankSim(ctx.comm, cfg, nprocs, layout=case["start"], diagnostics=False)
    f = rs.f
    eta = f.eta_grid
    F = sim.equilibrium_like_field(cfg, eta, case["seed"])
    Phi = 3.0 * sim.smooth_noise_field(tuple(len(e) for e in eta[:3]), case["seed"] + 1)
    out["nprocs"] = list(rs.nprocs)
    # (2) flux-surface advection
    if f.currentLayout != 'flux_surface':
        f.setLayout('flux_surface')
    sim.fill(f, F)
    rs.fluxAdv.gridStep(f)
    out["flux"] = sim.piece(f)
    # a direct change between the two layouts that are not neighbours (a multi-step route on most process grids)
    f.setLayout('poloidal')
    out["flux_then_poloidal"] = sim.piece(f)
    f.setLayout('flux_surface')
    out["and_back"] = sim.piece(f)
    # (5) parallel gradient per radius, and (3) v-parallel advection
    phi = rs.new_phi('v_parallel_1d')
    sim.fill(phi, Phi.astype(complex))
    pg = np.empty([phi.getLayout('v_parallel_1d').shape[0], cfg["npts"][2], cfg["npts"][1]])
    for i, _ in phi.getCoords(0):
        rs.parGrad.parallel_gradient(np.real(phi.get2DSlice(i)), i, pg[i])
    out["pargrad"] = sim.piece(phi, pg)
    f.setLayout('v_parallel')
    sim.fill(f, F)
    rs.vParAdv.gridStep(f, phi, rs.parGrad, rs.parGradVals, rs.halfStep)
    out["vpar"] = sim.piece(f)
    sim.fill(f, F)
    rs.vParAdv.gridStepKeepGradient(f, rs.parGradVals, rs.halfStep)
    out["vpar_keep"] = sim.piece(f)
    # (6) density
    sim.fill(f, F)
    rs.density.getPerturbedRho(f, rs.rho)
    out["rho"] = sim.piece(rs.rho)
    # (7) quasi-neutrality pipeline on that density
    rs.solve_qn()
    out["qn_phi"] = sim.piece(rs.phi)
    # (4) poloidal advection
    f.setLayout('poloidal')
    sim.fill(f, F)
    php = rs.new_phi('poloidal')
    sim.fill(php, Phi.astype(complex))
    rs.polAdv.gridStep(f, php, rs.halfStep)
    out["pol"] = sim.piece(f)
    # the entry point that re-uses the potential splines of the previous gridStep
    sim.fill(f, F)
    rs.polAdv.gridStep_SplinesUnchanged(f, rs.halfStep)
    out["pol_unchanged"] = sim.piece(f)
    # one complete Strang step from the initial condition of the run
    rs2 = sim.RankSim(ctx.comm, cfg, nprocs, layout='v_parallel', diagnostics=False)
    rs2.f.setLayout('v_parallel')
    rs2.solve_qn()
    rs2.strang_step()
    rs2.f.setLayout('v_parallel')
    out["step_f"] = sim.piece(rs2.f)
    out["step_phi"] = sim.piece(rs2.phi)
    return out


NAMES4 = ["init_flux_surface", "init_v_parallel", "init_poloidal", "flux", "flux_then_poloidal", "and_back", "vpar", "vpar_keep",
          "pol", "pol_unchanged",
          "step_f"]
NAMES3 = ["pargrad", "rho", "qn_phi", "step_phi"]


def _run(case, P, nprocs, schedule):
    res, w = run_world(P, _scenario, (case, nprocs), schedule=schedule, key="C05")
    npts = case["cfg"]["npts"]
    out = {}
    for name in NAMES4:
        out[name] = sim.assemble([r[name] for r in res], tuple(npts), name)
    for name in NAMES3:
        out[name] = sim.assemble([r[name] for r in res], tuple(npts[:3]), name)
    out["nprocs"] = res[0]["nprocs"]
    if any(list(r["nprocs"]) != list(out["nprocs"]) for r in res):
        raise Violation("C05:grid-choice-differs", "ranks chose different process grids: %s" % [r["nprocs"] for r in res])
    return out


def _close(name, a, b, what, rtol, key, mask=None, rel_mask=None, elementwise=False):
    """|a-b| <= rtol * scale;  where rel_mask (or elementwise) is set the bound is rtol * |b| element by element."""
    scale = float(np.nanmax(np.abs(b))) + 1e-300
    d = np.abs(a - b)
    if mask is not None:
        d = np.where(mask, d, 0.0)
    bound = np.full(np.shape(b), rtol * scale)
    if elementwise:
        bound = rtol * np.maximum(np.abs(a), np.abs(b)) + 1e-18 * scale
    elif rel_mask is not None:
        bound = np.where(rel_mask, rtol * np.abs(b) + 1e-300, bound)
    bad = ~(d <= bound)
    if bad.any():
        idx = tuple(int(x) for x in np.argwhere(bad)[0])
        raise Violation(key, "%s: %s differs at global index %s: %r vs %r (|diff| %.3e, scale %.3e; %d of %d points)"
                        % (what, name, idx, a[idx], b[idx], float(d[idx]), scale, int(bad.sum()), bad.size))


def op_pred(case):
    cfg = case["cfg"]
    serial = _run(case, 1, [1, 1], [])
    # ---- serial world against the references at every slice's own global coordinates ----------
    from ..simmpi import core
    g, consts = sim.setup_distrib(core.COMM_WORLD, cfg, "v_parallel", [1, 1], save=False)
    eta = g.eta_grid
    ref = gridref.GridRef(eta, [g.getSpline(i) for i in range(4)], consts)
    F = sim.equilibrium_like_field(cfg, eta, case["seed"])
    Phi = 3.0 * sim.smooth_noise_field(tuple(len(e) for e in eta[:3]), case["seed"] + 1)
    half = consts.dt * 0.5
    init = ref.init_f()
    for lay in sim.STD_LAYOUTS:
        _close("init_" + lay, serial["init_" + lay], init, "serial vs analytic initial condition", 1e-12,
               "C05:ref:init:" + lay)
    _close("flux", serial["flux"], ref.flux(F, half), "serial gridStep vs per-slice reference (own r, v)", 1e-9,
           "C05:ref:flux")
    pgr = ref.pargrad(Phi)
    _close("pargrad", serial["pargrad"], np.transpose(pgr, (0, 2, 1)), "serial vs reference (own radius)", 1e-9,
           "C05:ref:pargrad")
    vref = ref.vpar(F, pgr, half)
    _close("vpar", serial["vpar"], vref, "serial gridStep vs per-line reference (own r,z,theta)", 1e-9,
           "C05:ref:vpar", rel_mask=ref.last_outside)
    _close("vpar_keep", serial["vpar_keep"], vref, "serial gridStepKeepGradient vs reference", 1e-9,
           "C05:ref:vpar_keep", rel_mask=ref.last_outside)
    pol, ok = ref.poloidal(F, Phi, half)
    _close("pol", serial["pol"], pol, "serial gridStep vs per-slice reference (own v, z)", 1e-8, "C05:ref:pol", mask=ok)
    _close("pol_unchanged", serial["pol_unchanged"], pol, "serial gridStep_SplinesUnchanged vs per-slice reference", 1e-8,
           "C05:ref:pol_unchanged", mask=ok)
    _close("rho", serial["rho"], ref.rho(F), "serial vs reference density (own radius)", 1e-10, "C05:ref:rho")
    # ---- every process grid against the serial world -------------------------------------------
    labels = ["iota0" if cfg["iotaVal"] == 0 else "iota!=0"]
    if any(g0[0] > cfg["npts"][1] for g0 in case["grids"]):
        labels.append("more-ranks-than-theta-modes")
    nontriv = False
    runs = [(g0[0] * g0[1], list(g0)) for g0 in case["grids"]] + [(case["ownP"], None)]
    nev = 1
    for P, nprocs in runs:
        try:
            dist = _run(case, P, nprocs, case["schedule"])
        except Violation as v:
            if nprocs is None and "no valid combination of processors" in v.msg:
                labels.append("own-choice-impossible")
                continue
            raise
        nev += 1
        used = dist["nprocs"]
        tag = "grid %s%s P=%d" % (used, " (own choice)" if nprocs is None else "", P)
        for name in NAMES4 + NAMES3:
            _close(name, dist[name], serial[name], "%s vs serial" % tag, RTOL, "C05:decomp:" + name, elementwise=True)
        labels.append("P=%d" % P)
        if used[0] > 1:
            labels.append("r-split")
        if used[1] > 1:
            labels.append("z-split")
        if used[0] > 1 and used[1] > 1 and cfg["iotaVal"] != 0:
            nontriv = True
    return {"nontrivial": nontriv, "labels": sorted(set(labels)), "evals": nev}


# ----------------------------------------------------------------------------------------------
# (8) the real driver
# ----------------------------------------------------------------------------------------------
class VirtualClock:
    """Stands in for the `time` module inside fullSimulation.main(): the harness owns the clock.  Rank r reads
    1000 + k * tick * (1 + skew * r) at its k-th call, so the ranks' clocks run at different speeds (as the clocks
    of different nodes and differently loaded processes do) but every run is a pure function of the case."""

    def __init__(self, tick, skew):
        import time as _t
        self._real, self.tick, self.skew, self.calls = _t, float(tick), float(skew), {}

    def time(self):
        from ..simmpi import core
        try:
            r = int(core.COMM_WORLD.Get_rank())
        except Exception:  # noqa  (not a rank thread: the real clock)
            return self._real.time()
        k = self.calls.get(r, 0)
        self.calls[r] = k + 1
        return 1000.0 + k * self.tick * (1.0 + self.skew * r)

    def __getattr__(self, name):
        return getattr(self._real, name)


def run_driver(P, folder, constfile, tEnd, saveStep, schedule=(), eager=False, key="C05:driver", tMax=1000000, clock=None):
    """fullSimulation.main() on a simulated world; cwd must already be a scratch directory.
    clock = (tick, skew): run with a VirtualClock and the wall-clock limit tMax (seconds of that clock)."""
    import fullSimulation

    def fn(ctx):
        return fullSimulation.main()
    argv = ["fullSimulation.py", str(int(tEnd)), str(int(tMax)), "-f", folder, "-s", str(int(saveStep))]
    if constfile:
        argv += ["-c", constfile]
    old = sys.argv
    sys.argv = argv
    # main() does `import time` locally: what it gets is sys.modules['time']
    real_time = sys.modules["time"]
    if clock is not None:
        sys.modules["time"] = VirtualClock(*clock)
    try:
        with sim.quiet():
            run_world(P, fn, (), schedule=schedule, eager=eager, key=key)
    finally:
        sys.argv = old
        sys.modules["time"] = real_time


def read_h5(path):
    import h5py
    with h5py.File(path, "r") as f:
        d = f["/dset"]
        order = [int(x) for x in d.attrs["Layout"]]
        arr = np.array(d)
    inv = [order.index(i) for i in range(len(order))]
    return np.transpose(arr, inv)          # natural dimension order


@st.composite
def driver_cases(draw, tier):
    nr = draw(st.integers(5, 6))
    nq = draw(st.sampled_from([4, 5, 6, 7]))
    nz = draw(st.integers(7, 8))
    nv = draw(st.integers(5, 6))
    cfg = sim.base_cfg([nr, nq, nz, nv], draw(st.sampled_from([0.0, 0.8])), draw(st.sampled_from([2.0, 239.8081535])),
                       eps=1e-2, m=draw(st.integers(1, 2)), n=draw(st.integers(-1, 1)), dt=draw(st.sampled_from([1, 2])))
    ph = draw(sim.phys())
    if ph:
        cfg["phys"] = ph
    sizes = [2, 3, 4, 6] if tier == "quick" else [2, 3, 4, 5, 6, 8]
    Ps = draw(st.lists(st.sampled_from(sizes), min_size=1, max_size=2 if tier == "quick" else 4, unique=True))
    return {"cfg": cfg, "steps": draw(st.integers(1, 2)), "saveStep": draw(st.sampled_from([5, 2, 3])), "Ps": Ps,
            "schedule": draw(gen.schedules(10))}


def driver_pred(case):
    cfg = case["cfg"]
    tEnd = case["steps"] * cfg["dt"]
    results = {}
    with sim.scratch_cwd("pgv-c05-") as d:
        with open("consts.json", "w") as f:
            f.write(sim.constants_json(cfg))
        for P in [1] + list(case["Ps"]):
            folder = "run_P%d" % P
            try:
                run_driver(P, folder, "consts.json", tEnd, case["saveStep"], case["schedule"] if P > 1 else ())
            except Violation as v:
                if "no valid combination of processors" in v.msg:
                    continue
                raise
            files = sorted(os.listdir(folder))
            results[P] = {fn: read_h5(os.path.join(folder, fn)) for fn in files if fn.endswith(".h5")}
    serial = results[1]
    want_final = "grid_%06d.h5" % tEnd
    if want_final not in serial:
        raise Violation("C05:driver:missing-output", "serial run wrote %s, expected %s" % (sorted(serial), want_final))
    labels = []
    for P, res in results.items():
        if P == 1:
            continue
        if sorted(res) != sorted(serial):
            raise Violation("C05:driver:file-set", "P=%d wrote %s, serial wrote %s" % (P, sorted(res), sorted(serial)))
        for fn in sorted(res):
            _close(fn, res[fn], serial[fn], "driver on %d ranks vs serial" % P, RTOL, "C05:driver:" + fn.split("_")[0], elementwise=True)
        labels.append("P=%d" % P)
    return {"nontrivial": len(results) > 1 and cfg["iotaVal"] != 0, "labels": labels + ["steps=%d" % case["steps"]],
            "evals": len(results)}


SUBS = {"operators": Sub(op_pred, strategy=op_cases), "driver": Sub(driver_pred, strategy=driver_cases)}


def jobs(tier):
    n1, n2 = (6, 3) if tier == "quick" else (60, 30)
    return ([{"sub": "operators", "n": n1, "shard": i} for i in range(10)] +
            [{"sub": "driver", "n": n2, "shard": i} for i in range(6)])
