"""
C06 -- All ranks issue matching collectives; no layout change can deadlock.
"""
import hashlib
import json
import os
import subprocess
import warnings

import numpy as np
from hypothesis import strategies as st

from .. import bootstrap, gen, sim, simmpi, managers as mg
from ..harness import Sub, Violation, run_world
from ..oracles import globalarr as ga
from . import c01, c03, c05

PROPERTY = "C06"
HANG_SECONDS = 900.0
LINE_BUDGET = 20000000000
RULE = ("SPMD scenarios over generated configurations, executed on the simulated MPI whose strict matcher compares, per "
        "communicator, the k-th collective of every member (operation, root, counts, datatypes) and whose scheduler "
        "detects deadlock: (layouts) LayoutHandler / LayoutSwapper construction + transposes with the name `set` inside "
        "pygyro.model.layout shadowed by a set whose iteration order is a generated permutation that DIFFERS ON EVERY "
        "RANK (superset of per-interpreter string hashing) - route maps must be identical on all ranks; schedules: for "
        "<= 3 ranks a stateless depth-first enumeration of all 'which runnable rank next' choices up to a budget "
        "(exhaustive when the tree is finished), otherwise generated schedules, strict and eager completion semantics; "
        "(plotrank) grids with a plot-only rank owning an empty block: getMin/getMax for every argument shape and root, "
        "getBlockFromDict/getBlockForFig with generated ranges, layout changes; (saving) setupSave (folder None / given / "
        "existing, any root), writeH5Dataset, loadFromFile, setupFromFile, DiagnosticCollector collect/reduce; (driver) "
        "the real driver under eager semantics; (hashseed) real interpreters with different PYTHONHASHSEED compute the "
        "route maps of generated layout sets - digests must agree.  Rank-divergent exceptions count as violations (they "
        "are hangs on a real machine).  Non-trivial = >= 2 ranks and >= 3 collectives in the trace with a multi-step "
        "route or a rank that owns no data for the request.")
ASSUMPTIONS = ["absence of deadlock is shown for the simulated semantics (every collective synchronising; eager variant lets "
               "roots of bcast and non-roots of gather/reduce leave early) and the explored configurations only",
               "schedule enumeration is exhaustive only when reported so in the labels"]
TIMEOUT = {"quick": 3600, "thorough": 8 * 3600}
BUDGET = {"quick": 60, "thorough": 600}


def init_worker(tier):
    warnings.simplefilter("ignore")
    sim.install()


# ----------------------------------------------------------------------------------------------
# per-rank permuted set (shadowing `set` inside pygyro.model.layout)
# ----------------------------------------------------------------------------------------------
class PermSet:
    seed = 0

    def __init__(self, it=()):
        ctx = simmpi.current_ctx()
        rk = ctx.rank if ctx is not None else 0
        items = list(dict.fromkeys(it))
        items.sort(key=lambda x: hashlib.sha1(("%d/%d/%r" % (PermSet.seed, rk, x)).encode()).hexdigest())
        self._l = items

    def __iter__(self):
        return iter(list(self._l))

    def __len__(self):
        return len(self._l)

    def __contains__(self, x):
        return x in self._l

    def remove(self, x):
        self._l.remove(x)

    def add(self, x):
        if x not in self._l:
            self._l.append(x)


class shadow_set:
    def __init__(self, seed):
        self.seed = seed

    def __enter__(self):
        import pygyro.model.layout as L
        PermSet.seed = self.seed
        L.set = PermSet

    def __exit__(self, *a):
        import pygyro.model.layout as L
        if "set" in L.__dict__:
            del L.set


def route_digest(manager):
    rm = getattr(manager, "_route_map", None)
    return json.dumps(rm, sort_keys=True) if rm is not None else "single-layout"


# ----------------------------------------------------------------------------------------------
# (layouts)
# ----------------------------------------------------------------------------------------------
@st.composite
def layout_cases(draw, tier):
    small = draw(st.booleans())
    mp = 3 if small else None          # <= 3 ranks: schedules can be enumerated
    if draw(st.booleans()):
        cfg = draw(mg.swapper_config(tier, max_extent=5, max_procs=mp, allow_empty=True))
    else:
        cfg = draw(mg.handler_config(tier, min_dims=3, max_extent=5, max_procs=mp, allow_empty=True))
    names = [n for n, _ in mg.all_layouts(cfg)]
    steps = draw(st.lists(st.tuples(st.sampled_from(names), st.booleans()), min_size=1, max_size=5))
    return {"cfg": cfg, "start": cfg.get("start") or draw(st.sampled_from(names)), "steps": [list(s) for s in steps],
            "eager": draw(st.booleans()), "setseed": draw(st.integers(0, 10 ** 6)), "schedule": draw(gen.schedules(16)),
            "dtype": draw(st.sampled_from(["float64", "complex128"])),
            # the same walk through a Grid (setLayout lends its save block, when it has one, to the transpose)
            "grid": draw(st.sampled_from([None, None, "plain", "save"]))}


def _layout_rank(ctx, c):
    cfg = c["cfg"]
    try:
        man = mg.build(ctx.comm, cfg)
    except mg.Refused as e:
        return ("refused", str(e), None)
    dtype = ga.DTYPES[c["dtype"]]
    G = ga.global_array(cfg["shape"], c["dtype"])
    bs = int(man.bufferSize)
    src = np.zeros(bs, dtype=dtype)
    dst = np.zeros(bs, dtype=dtype)
    cur = c["start"]
    l = man.getLayout(cur)
    src[:l.size] = ga.block(G, l.dims_order, l.starts, l.ends).ravel()
    if c.get("grid"):
        from pygyro.model.grid import Grid
        shape = cfg["shape"]
        grid = Grid(mg.eta_grids(shape), [None] * len(shape), man, cur, ctx.comm, dtype=dtype,
                    allocateSaveMemory=(c["grid"] == "save"))
        grid.getAllData()[:] = ga.block(G, l.dims_order, l.starts, l.ends)
        for dn, _ in c["steps"]:
            if dn != grid.currentLayout:
                grid.setLayout(dn)
            ld = man.getLayout(dn)
            if not ga.bits_equal(grid.getAllData(), ga.block(G, ld.dims_order, ld.starts, ld.ends)):
                raise Violation("C06:wrong-data", "Grid.setLayout(%s) left wrong data on rank %d" % (dn, ctx.rank))
        digests = [route_digest(man)]
        if cfg["kind"] == "swapper":
            digests += [route_digest(m) for m in man._managers]
        return ("ok", digests, len(ctx.trace))
    for dn, usebuf in c["steps"]:
        buf = np.zeros(bs, dtype=dtype) if usebuf else None
        man.transpose(src, dst, cur, dn, buf)
        ld = man.getLayout(dn)
        if not ga.bits_equal(dst[:ld.size].reshape(ld.shape), ga.block(G, ld.dims_order, ld.starts, ld.ends)):
            raise Violation("C06:wrong-data", "%s->%s moved wrong data on rank %d" % (cur, dn, ctx.rank))
        src, dst = dst, src
        cur = dn
    digests = [route_digest(man)]
    if cfg["kind"] == "swapper":
        digests += [route_digest(m) for m in man._managers]
    return ("ok", digests, len(ctx.trace))


def run_layout_once(c, schedule, fallback="rr"):
    P = mg.nranks_cfg(c["cfg"])
    with shadow_set(c["setseed"]):
        res, w = run_world(P, _layout_rank, (c,), schedule=schedule, eager=c["eager"], key="C06:layouts", fallback=fallback)
    kinds = {r[0] for r in res}
    if kinds == {"refused"}:
        return w, "refused", 0
    if kinds != {"ok"}:
        raise Violation("C06:divergent-refusal", "some ranks refused the configuration, others accepted: %s" % [r[0] for r in res])
    d0 = res[0][1]
    for rk, r in enumerate(res):
        if r[1] != d0:
            raise Violation("C06:route-maps-differ", "rank %d computed a different route map than rank 0 (set iteration order differs per rank)" % rk)
    return w, "ok", max(r[2] for r in res)


def layout_pred(c, tier_budget=[60]):
    P = mg.nranks_cfg(c["cfg"])
    labels = [c["cfg"]["kind"], "eager" if c["eager"] else "strict", "P=%d" % P]
    ncoll = 0
    status = "ok"
    if P <= 3 and P >= 2:
        state = {}

        def run(s):
            w, st_, n = run_layout_once(c, s, fallback="first")
            state["n"] = n
            state["st"] = st_
            return w.decisions
        nruns, done = simmpi.enumerate_schedules(run, tier_budget[0])
        labels.append("schedules-exhaustive" if done else "schedules-budget")
        ncoll, status = state["n"], state["st"]
    else:
        w, status, ncoll = run_layout_once(c, c["schedule"])
        nruns = 1
    if status == "refused":
        return {"nontrivial": False, "labels": labels + ["refused"], "evals": nruns}
    # multi-step route present?
    multi = False
    if c["cfg"]["kind"] == "handler":
        perms = [p for _, p in c["cfg"]["layouts"]]
        dist = c01._distances(c["cfg"]["nprocs"], perms)
        names = [n for n, _ in c["cfg"]["layouts"]]
        cur = c["start"]
        for dn, _ in c["steps"]:
            if dist[names.index(cur)][names.index(dn)] >= 2:
                multi = True
            cur = dn
    else:
        multi = len(c["cfg"]["groups"]) >= 3
    return {"nontrivial": P >= 2 and ncoll >= 3 and multi, "labels": labels, "evals": nruns}


# ----------------------------------------------------------------------------------------------
# (plotrank)
# ----------------------------------------------------------------------------------------------
@st.composite
def plot_cases(draw, tier):
    cfg = sim.base_cfg([draw(st.integers(4, 6)), draw(st.integers(4, 6)), draw(st.integers(4, 6)), draw(st.integers(4, 6))])
    plot = draw(st.sampled_from([True, True, False]))
    # precondition of the set-up: the ranks that hold data must admit a process grid for these extents (otherwise the
    # set-up raises on those ranks only - an invalid configuration, not a schedule of interest)
    npts = cfg["npts"]

    def admissible(n):
        m1, m2 = min(npts[0], npts[3]), min(npts[2], npts[3])
        return any(n % a == 0 and n // a <= m2 for a in range(1, min(n, m1) + 1))
    sizes = [p_ for p_ in range(2, (5 if tier == "quick" else 7) + 1) if admissible(p_ - 1 if plot else p_)]
    P = draw(st.sampled_from(sizes))
    draw_rank = draw(st.integers(0, P - 1))
    ops = []
    # complex storage (as the potential and density grids have): the plotting gather sends the real part only;
    # minima/maxima are not defined for complex data, so those requests become block requests
    cplx = draw(st.integers(0, 3)) == 0
    for _ in range(draw(st.integers(1, 6))):
        k = draw(st.sampled_from([0, 1, 2, 2, 2, 3, 4]))      # several fixed indices most often: one placeholder reduce per call
        if cplx and k < 3:
            k = 3
        root = draw(st.integers(0, P - 1))
        if k == 0:
            ops.append({"op": "min", "root": root, "axis": None, "fix": None})
        elif k == 1:
            ax = draw(st.integers(0, 3))
            ops.append({"op": draw(st.sampled_from(["min", "max"])), "root": root, "axis": ax,
                        "fix": draw(st.integers(0, cfg["npts"][ax] - 1))})
        elif k == 2:
            axes = draw(st.lists(st.integers(0, 3), min_size=2, max_size=3, unique=True))
            ops.append({"op": "max", "root": root, "axis": axes, "fix": [draw(st.integers(0, cfg["npts"][a] - 1)) for a in axes]})
        elif k == 3:
            d = {}
            for ax in draw(st.lists(st.integers(0, 3), min_size=0, max_size=3, unique=True)):
                n = cfg["npts"][ax]
                if draw(st.booleans()):
                    d[str(ax)] = draw(st.integers(0, n - 1))
                else:
                    a = draw(st.integers(0, n - 1))
                    d[str(ax)] = [a, draw(st.integers(a + 1, n))]
            ops.append({"op": "block", "root": root, "dict": d})
        else:
            ops.append({"op": "setLayout", "to": draw(st.sampled_from(list(sim.STD_LAYOUTS)))})
    return {"cfg": cfg, "P": P, "drawRank": draw_rank, "plot": plot, "ops": ops, "complex": cplx,
            # the same world built by the restart set-up from a checkpoint folder instead of the fresh set-up
            "from_file": (not cplx) and draw(st.integers(0, 2)) == 0,
            "layout": draw(st.sampled_from(list(sim.STD_LAYOUTS))), "seed": draw(st.integers(0, 2 ** 16)),
            "eager": draw(st.booleans()), "schedule": draw(gen.schedules(16))}


def _plot_write(ctx, c, folder):
    g, consts = sim.setup_distrib(ctx.comm, c["cfg"], c["layout"], [1, 1], save=False)
    g.writeH5Dataset(folder, 0)
    return True


def _plot_rank(ctx, c, folder=None):
    from pygyro.initialisation.setups import setupCylindricalGrid, setupFromFile
    cfg = c["cfg"]
    try:
        if folder is not None:
            grid, consts, t = setupFromFile(folder, comm=ctx.comm, plotThread=c["plot"], drawRank=c["drawRank"],
                                            layout=c["layout"])
        else:
            grid, consts, t = setupCylindricalGrid(layout=c["layout"], comm=ctx.comm, plotThread=c["plot"],
                                                   drawRank=c["drawRank"],
                                                   dtype=np.complex128 if c.get("complex") else float, **sim.cfg_kwargs(cfg))
    except RuntimeError as e:
        if "no valid combination of processors" in str(e):
            return ("nogrid", None)
        raise
    F = sim.smooth_noise_field(tuple(cfg["npts"]), c["seed"], noise=1.0)
    if c.get("complex"):
        F = F + 1j * sim.smooth_noise_field(tuple(cfg["npts"]), c["seed"] + 5, noise=1.0)
    if grid.getAllData().size:
        sim.fill(grid, F)
    out = []
    for op in c["ops"]:
        if op["op"] in ("min", "max"):
            fn = grid.getMin if op["op"] == "min" else grid.getMax
            if op["axis"] is None:
                out.append(fn(op["root"]))
            else:
                out.append(fn(op["root"], op["axis"], op["fix"]))
        elif op["op"] == "block":
            d = {int(k): (v if isinstance(v, int) else range(v[0], v[1])) for k, v in op["dict"].items()}
            r = grid.getBlockFromDict(d, ctx.comm, op["root"])
            l = grid.getLayout(grid.currentLayout)
            out.append((None if r is None else np.array(r[3]), tuple(int(x) for x in l.starts), tuple(int(x) for x in l.ends),
                        tuple(l.dims_order), grid.getAllData().size))
        else:
            grid.setLayout(op["to"])
            out.append(None)
    return ("ok", out)


def plot_pred(c):
    cfg = c["cfg"]
    P = c["P"]
    npts = cfg["npts"]
    ncomp = P - 1 if c["plot"] else P
    m1, m2 = min(npts[0], npts[3]), min(npts[2], npts[3])
    if not any(ncomp % a == 0 and ncomp // a <= m2 for a in range(1, min(ncomp, m1) + 1)):
        # precondition (see plot_cases): no process grid exists for the ranks that hold data
        return {"nontrivial": False, "labels": ["no-process-grid"]}
    if c.get("from_file"):
        with sim.scratch_cwd("pgv-c06-") as d:
            folder = os.path.join(d, "ckpt")
            os.mkdir(folder)
            with open(os.path.join(folder, "initParams.json"), "w") as fh:
                fh.write(sim.constants_json(cfg))
            run_world(1, _plot_write, (c, folder), key="C06:plotrank:write")
            res, w = run_world(P, _plot_rank, (c, folder), schedule=c["schedule"], eager=c["eager"], key="C06:plotrank")
    else:
        res, w = run_world(P, _plot_rank, (c,), schedule=c["schedule"], eager=c["eager"], key="C06:plotrank")
    kinds = {r[0] for r in res}
    if kinds == {"nogrid"}:
        return {"nontrivial": False, "labels": ["no-process-grid"]}
    if kinds != {"ok"}:
        raise Violation("C06:divergent-refusal", "some ranks found no process grid, others did: %s" % [r[0] for r in res])
    F = sim.smooth_noise_field(tuple(cfg["npts"]), c["seed"], noise=1.0)
    empty_owner = False
    for k, op in enumerate(c["ops"]):
        if op["op"] in ("min", "max"):
            idx = [slice(None)] * 4
            if op["axis"] is not None:
                for a, fx in zip(np.atleast_1d(op["axis"]), np.atleast_1d(op["fix"])):
                    idx[int(a)] = int(fx)
            want = F[tuple(idx)].min() if op["op"] == "min" else F[tuple(idx)].max()
            for rk in range(P):
                got = res[rk][1][k]
                if rk == op["root"]:
                    if got != want:
                        raise Violation("C06:plot:value", "get%s(root=%d, axis=%s, fixValue=%s) = %r, global field gives %r"
                                        % (op["op"].capitalize(), op["root"], op["axis"], op["fix"], got, want))
                elif got is not None:
                    raise Violation("C06:plot:non-root", "rank %d received %r although rank %d is the drawing rank" % (rk, got, op["root"]))
        elif op["op"] == "block":
            pieces = []
            for rk in range(P):
                data, starts, ends, order, size = res[rk][1][k]
                if size == 0:
                    empty_owner = True
                    continue
                FT = F.transpose(order)
                sl = []
                hit = True
                for pos, dim in enumerate(order):
                    sel = op["dict"].get(str(dim))
                    lo, hi = starts[pos], ends[pos]
                    if sel is not None:
                        a, b = (sel, sel + 1) if isinstance(sel, int) else sel
                        lo, hi = max(lo, a), min(hi, b)
                    if hi <= lo:
                        hit = False
                    sl.append(slice(lo, hi))
                if hit:
                    pieces.append(FT[tuple(sl)].ravel())
                else:
                    empty_owner = True
            want = np.concatenate(pieces) if pieces else np.zeros(0)
            for rk in range(P):
                data = res[rk][1][k][0]
                if rk == op["root"]:
                    if data is None or data.shape != want.shape or not np.array_equal(data, want):
                        raise Violation("C06:plot:block", "getBlockFromDict(%s, root=%d) returned %s values, the selected part of the "
                                        "global field (rank order) has %d%s" % (op["dict"], op["root"],
                                                                                None if data is None else data.size, want.size,
                                                                                "" if data is None or data.shape != want.shape else " (values differ)"))
                elif data is not None:
                    raise Violation("C06:plot:non-root", "rank %d received block data although rank %d is the root" % (rk, op["root"]))
    ncoll = max(len(t) for t in w.traces())
    return {"nontrivial": P >= 2 and ncoll >= 3 and (c["plot"] or empty_owner),
            "labels": ["P=%d" % P, "plot-only-rank" if c["plot"] else "all-compute", "eager" if c["eager"] else "strict",
                       "complex-grid" if c.get("complex") else "real-grid",
                       "restart-set-up" if c.get("from_file") else "fresh-set-up"],
            "evals": len(c["ops"])}


# ----------------------------------------------------------------------------------------------
# (saving)
# ----------------------------------------------------------------------------------------------
@st.composite
def save_cases(draw, tier):
    cfg = sim.base_cfg([draw(st.integers(5, 6)), draw(st.integers(6, 7)), 7, draw(st.integers(5, 6))])
    P = draw(st.integers(2, 3 if tier == "quick" else 4))
    return {"cfg": cfg, "P": P, "root": draw(st.integers(0, P - 1)), "folder": draw(st.sampled_from([None, "given", "existing"])),
            "eager": draw(st.booleans()), "twice": draw(st.booleans()), "saveStep": draw(st.integers(1, 3)),
            "schedule": draw(gen.schedules(16)), "enumerate": draw(st.booleans())}


def _save_rank(ctx, c, base):
    from pygyro.utilities.savingTools import setupSave
    from pygyro.initialisation.setups import setupFromFile
    rs = sim.RankSim(ctx.comm, c["cfg"], None, save_step=c["saveStep"])
    folder = None if c["folder"] is None else os.path.join(base, "sim_out")
    name = setupSave(rs.constants, folder, comm=ctx.comm, root=c["root"])
    names = [name]
    if c["twice"]:
        names.append(setupSave(rs.constants, folder, comm=ctx.comm, root=c["root"]))
    rs.f.writeH5Dataset(names[0], 0)
    rs.phi.setLayout('v_parallel_2d')
    rs.phi.writeH5Dataset(names[0], 0, "phi")
    rs.f.loadFromFile(names[0])
    rs.diagnostics.collect(rs.f, rs.phi, 0)
    rs.diagnostics.reduce()
    g, cst, t = setupFromFile(names[0], comm=ctx.comm, allocateSaveMemory=True, layout='v_parallel')
    return names


def save_pred(c):
    P = c["P"]
    with sim.scratch_cwd("pgv-c06-") as d:
        if c["folder"] == "existing":
            os.mkdir(os.path.join(d, "sim_out"))

        def once(schedule, fallback="rr"):
            # every execution gets a clean directory state
            for n in os.listdir(d):
                if n.startswith("simulation_"):
                    import shutil
                    shutil.rmtree(os.path.join(d, n))
            res, w = run_world(P, _save_rank, (c, d), schedule=schedule, eager=c["eager"], key="C06:saving", fallback=fallback)
            for names in res:
                if names != res[0]:
                    raise Violation("C06:saving:folder-names", "ranks disagree on the output folder: %s" % res)
            return w
        nruns = 1
        if c["enumerate"] and P <= 3:
            # the scenario is expensive: enumerate a bounded prefix of the schedule tree
            nruns, done = simmpi.enumerate_schedules(lambda s: once(s, "first").decisions, 6)
        else:
            once(c["schedule"])
    return {"nontrivial": True, "labels": ["P=%d" % P, "folder=%s" % c["folder"], "eager" if c["eager"] else "strict",
                                          "root=%s" % ("0" if c["root"] == 0 else "other")], "evals": nruns}


# ----------------------------------------------------------------------------------------------
# (driver) under eager semantics
# ----------------------------------------------------------------------------------------------
@st.composite
def driver_cases(draw, tier):
    cfg = sim.base_cfg([5, 6, 7, 5], draw(st.sampled_from([0.8, 0.0])), 2.0, eps=1e-2, m=1, n=1, dt=1)
    c = {"cfg": cfg, "P": draw(st.sampled_from([2, 3, 4])), "steps": draw(st.integers(1, 2)),
         "saveStep": draw(st.integers(1, 3)), "eager": draw(st.sampled_from([True, True, False])),
         "schedule": draw(gen.schedules(24))}
    if draw(st.booleans()):
        # the run is ended by its wall-clock limit, read from clocks that run at different speeds on different ranks:
        # the ranks disagree about the time left at some step and must still leave the loop together
        c["steps"] = draw(st.integers(2, 4))
        tick = draw(st.sampled_from([1.0, 2.0, 4.0]))
        c["clock"] = [tick, draw(st.sampled_from([0.0, 0.05, 0.3]))]
        # the limit falls somewhere inside the run: the driver reads its clock a few dozen times per step
        c["tMax"] = int(tick * draw(st.integers(25, 90)))
    return c


def driver_pred(c):
    with sim.scratch_cwd("pgv-c06-"):
        with open("consts.json", "w") as fh:
            fh.write(sim.constants_json(c["cfg"]))
        c05.run_driver(c["P"], "out", "consts.json", c["steps"] * c["cfg"]["dt"], c["saveStep"], c["schedule"],
                       eager=c["eager"], key="C06:driver", tMax=c.get("tMax", 1000000),
                       clock=tuple(c["clock"]) if c.get("clock") else None)
        files = sorted(os.listdir("out"))
    if "initParams.json" not in files:
        raise Violation("C06:driver:no-params", "driver finished without writing initParams.json (%s)" % files)
    return {"nontrivial": True, "labels": ["P=%d" % c["P"], "eager" if c["eager"] else "strict",
                                           "virtual-clock-limit" if c.get("clock") else "ends-at-tEnd"], "evals": 1}


# ----------------------------------------------------------------------------------------------
# (hashseed) real interpreters
# ----------------------------------------------------------------------------------------------
HASH_SCRIPT = r'''
import sys, json, hashlib
sys.path.insert(0, %(verif)r)
from pgv import bootstrap
bootstrap.prepare()
import warnings; warnings.simplefilter("ignore")
import numpy as np
from pygyro.model.layout import LayoutHandler
class C:
    def __init__(s, n): s.n = n
    def Get_size(s): return s.n
out = []
for cfg in json.load(open(sys.argv[1])):
    nprocs = cfg["nprocs"]
    eta = [np.arange(n, dtype=float) for n in cfg["shape"]]
    try:
        h = LayoutHandler([C(p) for p in nprocs], [0] * len(nprocs), {n: p for n, p in cfg["layouts"]}, list(nprocs), eta)
        out.append(json.dumps(getattr(h, "_route_map", None), sort_keys=True))
    except RuntimeError as e:
        out.append("refused")
print(json.dumps(out))
'''


@st.composite
def hash_cases(draw, tier):
    cfgs = draw(st.lists(mg.handler_config(tier, min_dims=3, max_extent=6), min_size=4, max_size=10))
    return {"cfgs": cfgs, "seeds": [0, 1, 2, 3] if tier == "quick" else list(range(32))}


def hash_pred(c):
    with sim.scratch_cwd("pgv-c06-") as d:
        with open("cfgs.json", "w") as fh:
            json.dump(c["cfgs"], fh)
        with open("script.py", "w") as fh:
            fh.write(HASH_SCRIPT % {"verif": bootstrap.VERIF})
        outs = {}
        for s in c["seeds"] + ["random"]:
            env = bootstrap.worker_env({"PYTHONHASHSEED": str(s)})
            r = subprocess.run([bootstrap.PYTHON, "script.py", "cfgs.json"], capture_output=True, text=True, env=env, cwd=d)
            if r.returncode != 0:
                raise RuntimeError("hash-seed subprocess failed: %s" % r.stderr[-800:])
            outs[s] = json.loads(r.stdout.strip().splitlines()[-1])
    base = outs[c["seeds"][0]]
    multi = 0
    for s, o in outs.items():
        for i, (a, b) in enumerate(zip(base, o)):
            if a != b:
                raise Violation("C06:hashseed", "PYTHONHASHSEED=%s and %s give different route maps for layout set %s"
                                % (c["seeds"][0], s, c["cfgs"][i]["layouts"]))
    for a in base:
        if a not in ("refused", "null") and '", "' in a:
            multi += 1
    return {"nontrivial": multi > 0, "labels": ["seeds=%d" % len(outs)], "evals": len(outs) * len(base)}


# ----------------------------------------------------------------------------------------------
# (qnwalk) the driver's layout walk of rho / phi, incl. grids with more ranks along r than theta modes
# ----------------------------------------------------------------------------------------------
@st.composite
def qn_cases(draw, tier):
    from . import c15
    nq = draw(st.sampled_from([4, 4, 5, 6]))
    cfg = sim.base_cfg([draw(st.integers(5, 7)), nq, 7, draw(st.integers(5, 7))], draw(st.sampled_from([0.0, 0.8])), 2.0)
    maxP = 6 if tier == "quick" else 12
    grids = sim.admissible_grids(cfg["npts"], maxP)
    big = [g for g in grids if g[0] > nq]
    g = draw(st.sampled_from(big if big and draw(st.booleans()) else [x for x in grids if x[0] * x[1] >= 2]))
    return {"cfg": cfg, "nprocs": g, "seed": draw(st.integers(0, 2 ** 16)), "chi": 0, "adiabatic": True,
            "modes": [[1, 0, 1.0, 0.3], [-2, 1, 0.5, 1.0]], "noise": 0.3, "schedule": draw(gen.schedules(24)),
            "eager": draw(st.booleans())}


def qn_pred(c):
    from . import c15
    P = c["nprocs"][0] * c["nprocs"][1]
    res, w = run_world(P, c15._rank, (c,), schedule=c["schedule"], eager=c["eager"], key="C06:qnwalk")
    ncoll = max(len(t) for t in w.traces())
    empty = c["nprocs"][0] > c["cfg"]["npts"][1]
    return {"nontrivial": P >= 2 and ncoll >= 3, "labels": ["P=%d" % P, "eager" if c["eager"] else "strict",
                                                            "ranks-without-theta-modes" if empty else "all-ranks-own-modes"],
            "evals": 1}


SUBS = {"layouts": Sub(layout_pred, strategy=layout_cases), "plotrank": Sub(plot_pred, strategy=plot_cases),
        "qnwalk": Sub(qn_pred, strategy=qn_cases),
        "saving": Sub(save_pred, strategy=save_cases), "driver": Sub(driver_pred, strategy=driver_cases),
        "hashseed": Sub(hash_pred, strategy=hash_cases)}


def jobs(tier):
    layout_pred.__defaults__[0][0] = BUDGET[tier]
    if tier == "quick":
        n1, n2, n3, n4, n5 = 60, 50, 6, 3, 2
        k1, k2, k3, k4 = 6, 3, 6, 4
    else:
        n1, n2, n3, n4, n5 = 600, 1500, 60, 24, 12
        k1, k2, k3, k4 = 16, 6, 8, 4
    return ([{"sub": "layouts", "n": n1, "shard": i, "budget": BUDGET[tier]} for i in range(k1)] +
            [{"sub": "plotrank", "n": n2, "shard": i} for i in range(k2)] +
            [{"sub": "saving", "n": n3, "shard": i} for i in range(k3)] +
            [{"sub": "driver", "n": n4, "shard": i} for i in range(k4)] +
            [{"sub": "qnwalk", "n": 4 if tier == "quick" else 60, "shard": i} for i in range(4)] +
            [{"sub": "hashseed", "n": n5, "shard": i} for i in range(1)])


_orig_init = init_worker


def init_worker(tier):  # noqa: F811
    _orig_init(tier)
    layout_pred.__defaults__[0][0] = BUDGET[tier]
