"""
C01 -- Layout transposes preserve the global field (DESIGN.md section 3, C01).
"""
import warnings

import numpy as np
from hypothesis import strategies as st

from .. import gen
from ..harness import Sub, Violation, run_world
from ..oracles import globalarr as ga

PROPERTY = "C01"
HANG_SECONDS = 60.0
LINE_BUDGET = 1000000000
RULE = ("Hypothesis-generated LayoutHandler configurations (ndims 2-4, extents 1-9 biased to n=p, p+1, 2p+-1 and, in 1 case of 6, one dimension with fewer points than processes, "
        "process grids of length 1-3 incl. leading 1, layout sets connected by construction or "
        "arbitrary subsets of S_n, float/complex/int payload = injective code of the global index, "
        "sentinel-filled buffers of exactly bufferSize) with lists of transposes (independent or "
        "chained, with/without spare buffer) run on a simulated MPI world under a generated schedule; "
        "every rank's destination block is compared bit-for-bit with the slice of the global array. "
        "Non-trivial = some transpose moves a distributed axis with p>=2 to another owner AND (a block "
        "is uneven OR the move needs >=2 steps); distinct = distinct case digest.")
ASSUMPTIONS = [
    "simulated MPI (pgv.simmpi) stands in for mpi4py/libmpi: collectives are synchronising, data moves as raw bytes",
    "expected block = G.transpose(dims_order)[layout.starts:layout.ends] with the layout's own advertised ranges; "
    "that these ranges tile the array exactly is checked here per layout and exhaustively in C02",
]


def init_worker(tier):
    warnings.simplefilter("ignore")


@st.composite
def cases(draw, tier):
    max_procs = 8 if tier == "quick" else 12
    ndims = draw(st.sampled_from([2, 3, 3, 4, 4, 4]))
    grids = gen.all_process_grids(max_procs, 1, min(2, ndims))
    both = [g for g in grids if len(g) == 2 and g[0] > 1 and g[1] > 1]
    pick = draw(st.integers(0, 7))
    if ndims >= 3 and pick == 0:
        # three distributed directions (the handler is not limited to 2-D process grids)
        nprocs = draw(st.sampled_from(gen.all_process_grids(max_procs, 3, 3, max_entry=3)))
    elif ndims >= 3 and both and pick <= 5:
        nprocs = draw(st.sampled_from(both))
    else:
        nprocs = draw(st.sampled_from(grids))
    ndist = len(nprocs)
    mode = draw(st.sampled_from(["connected", "connected", "connected", "arbitrary"]))
    if mode == "connected":
        perms = draw(gen.connected_layout_set(ndims, ndist))
    else:
        perms = draw(gen.arbitrary_layout_set(ndims))
    nm = draw(gen.names(len(perms)))
    mins = gen.min_extents(ndims, nprocs, perms)
    shape = draw(gen.extents(mins))
    # fewer points than processes along a distributed direction (some ranks own an empty block), 1 case in 6
    shape = draw(gen.maybe_short(shape, mins))
    dtype = draw(st.sampled_from(["float64", "float64", "complex128", "int64"]))
    nl = len(perms)
    ops = draw(st.lists(st.tuples(st.integers(0, nl - 1), st.integers(0, max(nl - 2, 0)), st.booleans(),
                                  st.booleans(), st.integers(0, 6)), min_size=1, max_size=10))
    # mostly src != dst
    ops = [(a, a if (nl == 1 or same == 0) else (a + 1 + off) % nl, ub, ch) for a, off, ub, ch, same in ops]
    if nl * nl <= 12 and draw(st.booleans()):
        ops = [(a, b, draw(st.booleans()), False) for a in range(nl) for b in range(nl)]
    c = {"shape": shape, "nprocs": nprocs, "layouts": [[n, p] for n, p in zip(nm, perms)],
         "mode": mode, "dtype": dtype, "ops": [list(o) for o in ops],
         "schedule": draw(gen.schedules(16))}
    if len(nprocs) >= 2 and nprocs != nprocs[::-1] and draw(st.integers(0, 3)) == 0:
        c["decoy"] = nprocs[::-1]
    return c


def _rank_fn(ctx, case):
    from pygyro.model.layout import getLayoutHandler
    shape = case["shape"]
    dtype = ga.DTYPES[case["dtype"]]
    layouts = {n: list(p) for n, p in case["layouts"]}
    eta = [np.linspace(0.0, 1.0, n) for n in shape]
    if case.get("decoy"):
        # another handler built earlier on the same communicator with another process grid (as a program that sets up
        # several grids does): nothing of it may reach the handler under test
        try:
            getLayoutHandler(ctx.comm, layouts, list(case["decoy"]), eta)
        except RuntimeError:
            pass
    try:
        h = getLayoutHandler(ctx.comm, layouts, list(case["nprocs"]), eta)
    except RuntimeError as e:
        if "could not be connected" in str(e):
            return ("refused", str(e))
        raise
    G = ga.global_array(shape, case["dtype"])
    sent = ga.sentinel(case["dtype"])
    names = [n for n, _ in case["layouts"]]
    bs = int(h.bufferSize)
    info = {n: (tuple(int(x) for x in h.getLayout(n).starts), tuple(int(x) for x in h.getLayout(n).ends),
                tuple(h.getLayout(n).shape), int(h.getLayout(n).size)) for n in names}
    for n in names:
        if info[n][3] > bs:
            raise Violation("C01:buffer-too-small",
                            "bufferSize %d < size %d of layout %s" % (bs, info[n][3], n))
    src = dst = None
    prev = None
    for k, (a, b, usebuf, chain) in enumerate(case["ops"]):
        sn, dn = names[a], names[b]
        if chain and prev is not None:
            sn = prev
            src, dst = dst, src
            dst[:] = sent
        else:
            src = np.full(bs, sent, dtype=dtype)
            dst = np.full(bs, sent, dtype=dtype)
            ls = h.getLayout(sn)
            src[:ls.size] = ga.block(G, ls.dims_order, ls.starts, ls.ends).ravel()
        ls = h.getLayout(sn)
        ld = h.getLayout(dn)
        before = src[:ls.size].copy()
        buf = np.full(bs, sent, dtype=dtype) if usebuf else None
        h.transpose(src, dst, sn, dn, buf)
        want = ga.block(G, ld.dims_order, ld.starts, ld.ends)
        got = dst[:ld.size].reshape(ld.shape)
        if not ga.bits_equal(got, want):
            bad = np.argwhere(got != want)
            raise Violation("C01:wrong-data",
                            "op %d %s->%s buf=%s rank %d: %d of %d elements differ, first at %s: got %r want %r"
                            % (k, sn, dn, usebuf, ctx.rank, len(bad), want.size,
                               bad[0].tolist() if len(bad) else None,
                               got[tuple(bad[0])] if len(bad) else None,
                               want[tuple(bad[0])] if len(bad) else None))
        if usebuf and not ga.bits_equal(src[:ls.size], before):
            raise Violation("C01:source-modified",
                            "op %d %s->%s with spare buffer changed the source block on rank %d"
                            % (k, sn, dn, ctx.rank))
        prev = dn
    return ("ok", info)


def _distances(nprocs, perms):
    """Shortest number of one-distributed-axis steps between layouts (own BFS, for labels only)."""
    n = len(perms)
    adj = [[j for j in range(n) if j != i and
            sum(1 for k, p in enumerate(nprocs) if p > 1 and perms[i][k] != perms[j][k]) < 2]
           for i in range(n)]
    dist = [[0 if i == j else 99 for j in range(n)] for i in range(n)]
    for s0 in range(n):
        frontier = [s0]
        d = 0
        seen = {s0}
        while frontier:
            d += 1
            nxt = []
            for u in frontier:
                for v in adj[u]:
                    if v not in seen:
                        seen.add(v)
                        dist[s0][v] = d
                        nxt.append(v)
            frontier = nxt
    return dist


def predicate(case):
    P = int(np.prod(case["nprocs"]))
    res, w = run_world(P, _rank_fn, (case,), schedule=case.get("schedule", ()), key="C01")
    kinds = {r[0] for r in res}
    if kinds == {"refused"}:
        return {"nontrivial": False, "labels": ["refused-unconnected"], "evals": 1}
    if kinds != {"ok"}:
        raise Violation("C01:divergent-refusal", "some ranks refused the layout set, others accepted: %s"
                        % [r[0] for r in res])
    # blocks advertised by the ranks tile the global array exactly once per layout
    shape = case["shape"]
    for n, perm in case["layouts"]:
        full = tuple(shape[d] for d in perm)
        ok, m = ga.check_tiling(full, [(r[1][n][0], r[1][n][1]) for r in res])
        if not ok or m != 1:
            raise Violation("C01:blocks-do-not-tile", "layout %s: %s" % (n, m))
    nprocs = case["nprocs"]
    perms = [p for _, p in case["layouts"]]
    uneven = any(shape[perm[i]] % p for perm in perms for i, p in enumerate(nprocs) if p > 1)
    labels = []
    nontriv = False
    prev = None
    dist = _distances(nprocs, perms)
    for a, b, usebuf, chain in case["ops"]:
        if chain and prev is not None:
            a = prev
        moved = [i for i, p in enumerate(nprocs) if p > 1 and perms[a][i] != perms[b][i]]
        steps = "same" if a == b else ("local" if not moved else ("direct" if len(moved) == 1 else "multi"))
        labels.append("%s/%s" % (steps, "buf" if usebuf else "nobuf"))
        nst = dist[a][b]
        labels.append("steps=%d" % nst)
        if moved and (uneven or nst >= 2):
            nontriv = True
        prev = b
    labels = sorted(set(labels))
    if uneven:
        labels.append("uneven")
    if any(shape[perm[i]] < p for perm in perms for i, p in enumerate(nprocs)):
        labels.append("empty-blocks")
    if nprocs[0] == 1 and P > 1:
        labels.append("nprocs0==1")
    labels.append("P=%d" % P)
    labels.append(case["mode"])
    return {"nontrivial": nontriv, "labels": labels, "evals": len(case["ops"])}


SUBS = {"transpose": Sub(predicate, strategy=cases)}


def jobs(tier):
    if tier == "quick":
        return [{"sub": "transpose", "n": 400, "shard": i, "nshards": 16} for i in range(16)]
    return [{"sub": "transpose", "n": 16000, "shard": i, "nshards": 16} for i in range(16)]
