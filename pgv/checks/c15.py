"""
C15 -- Quasi-neutrality pipeline: exact FFT round trip, real potential, equilibrium.
"""
import warnings

import numpy as np
from hypothesis import strategies as st

from .. import gen, sim, gridref
from ..harness import Sub, Violation, Inconclusive, run_world
from ..oracles import bspl, fem, advect

PROPERTY = "C15"
HANG_SECONDS = 900.0
LINE_BUDGET = 20000000000
RULE = ("Hypothesis-generated simulation grids (theta counts even and odd), real densities (generated modes + seeded noise), "
        "chi in {0,1}, adiabatic or kinetic electrons, generated process grids; the pipeline is run exactly as the driver "
        "does it (rho on a LayoutHandler, phi on a LayoutSwapper: v_parallel_2d -> mode_solve -> v_parallel_2d).  Oracle: "
        "getModes then findPotential is the identity (1e-13); phi equals numpy.fft + the dense Galerkin reference per mode "
        "(m^2 from fftfreq, Neumann only for m=0 at the inner side, m=0 stiffness per chi, adiabatic response otherwise) + "
        "inverse transform; imag(phi)=0 within tolerance for real rho; eps=0 => rho == 0 exactly, phi == 0 exactly and a "
        "complete Strang step maps the equilibrium to itself (1e-12).  Non-trivial = rho with >= 2 non-zero modes incl. "
        "a negative-frequency one on >= 2 ranks.")
ASSUMPTIONS = ["simulated MPI", "dense FEM reference (pgv.oracles.fem) with the same Gauss rule; cond > 1e10 inconclusive"]

EPS = np.finfo(float).eps
TIMEOUT = {"quick": 3600, "thorough": 8 * 3600}


def init_worker(tier):
    warnings.simplefilter("ignore")
    sim.install()


@st.composite
def cases(draw, tier):
    cfg = draw(sim.sim_config(tier))
    maxP = 6 if tier == "quick" else 12
    grids = sim.admissible_grids(cfg["npts"], maxP)
    multi = [g for g in grids if g[0] * g[1] >= 2]
    g = draw(st.sampled_from(multi if draw(st.integers(0, 4)) > 0 else grids))
    return {"cfg": cfg, "nprocs": g, "seed": draw(st.integers(0, 2 ** 16)), "chi": draw(st.sampled_from([0, 1])),
            "adiabatic": draw(st.sampled_from([True, True, False])), "schedule": draw(gen.schedules(8)),
            "modes": [list(x) for x in draw(st.lists(st.tuples(st.integers(-3, 3), st.integers(0, 2), st.floats(0.2, 2),
                                                               st.floats(0, 6.3)), min_size=1, max_size=3))],
            "noise": draw(st.sampled_from([0.0, 0.3])),
            # quadrature exactness requested from the solver (the driver asks for 7; the class accepts any)
            "qdeg": draw(st.sampled_from([7, 7, 6, 8, 5, 4]))}


def density(c, eta, second=False):
    """The density of the case; second=True: another one (other modes, other noise) for a second pass through the same
    solver objects."""
    r, q, z = eta[:3]
    rng = np.random.default_rng(c["seed"] + (7 if second else 0))
    R = np.zeros((len(r), len(q), len(z)))
    s = (r - r[0]) / (r[-1] - r[0])
    modes = [(1 - m, kz + 1, 0.7 * amp, ph + 1.0) for m, kz, amp, ph in c["modes"]] if second else c["modes"]
    for m, kz, amp, ph in modes:
        R += amp * (0.3 + s * (1 - s))[:, None, None] * np.cos(m * q[None, :, None] + kz * 2 * np.pi * np.arange(len(z))[None, None, :] / len(z) + ph)
    if c["noise"]:
        R += c["noise"] * rng.standard_normal(R.shape)
    return R


def _rank(ctx, c):
    rs = sim.RankSim(ctx.comm, c["cfg"], c["nprocs"], diagnostics=False, chi=c["chi"], adiabatic=c["adiabatic"],
                     qn_degree=c.get("qdeg", 7))
    eta = rs.f.eta_grid
    R = density(c, eta)
    rho, phi = rs.rho, rs.phi
    out = {}
    # FFT round trip on the rho grid
    sim.fill(rho, R.astype(complex))
    rs.QN.getModes(rho)
    out["modes"] = sim.piece(rho)
    rs.QN.findPotential(rho)
    out["roundtrip"] = sim.piece(rho)
    # the pipeline, exactly as the driver walks through the layouts
    sim.fill(rho, R.astype(complex))
    rs.QN.getModes(rho)
    rho.setLayout('mode_solve')
    phi.setLayout('mode_solve')
    rs.QN.solveEquation(phi, rho)
    phi.setLayout('v_parallel_2d')
    rho.setLayout('v_parallel_2d')
    rs.QN.findPotential(phi)
    out["phi"] = sim.piece(phi)
    # a second density through the same solver, grids and layouts (what every later time step does)
    sim.fill(rho, density(c, eta, second=True).astype(complex))
    rs.QN.getModes(rho)
    rho.setLayout('mode_solve')
    phi.setLayout('mode_solve')
    rs.QN.solveEquation(phi, rho)
    phi.setLayout('v_parallel_2d')
    rho.setLayout('v_parallel_2d')
    rs.QN.findPotential(phi)
    out["phi_second"] = sim.piece(phi)
    return out


def reference_phi(c, eta, rbasis, consts, second=False):
    """numpy.fft + dense Galerkin per mode + inverse transform."""
    r, q, z = [np.asarray(e, dtype=float) for e in eta[:3]]
    cd = advect.const_dict(consts)
    space = gridref.space_of(rbasis)
    Bc = 1.0

    def Bf(x):
        return -(1.0 / x + advect.n0deriv_normalised(x, cd))

    def Cf(x):
        return Bc * Bc / advect.Te(x, cd) if c["adiabatic"] else 0.0 * x

    def Df(x):
        return -1.0 / x ** 2

    def Ef(x):
        return Bc * Bc / advect.n0(x, cd)
    dense = fem.DenseFEM(space, rbasis, c.get("qdeg", 7), lambda x: -1.0 + 0 * x, Bf, Cf, Df, Ef)
    K0_m0 = None
    if c["adiabatic"] and c["chi"] == 1:
        K0_m0 = fem.DenseFEM(space, rbasis, c.get("qdeg", 7), lambda x: -1.0 + 0 * x, Bf, lambda x: 0.0 * x, Df, Ef).K0
    R = density(c, eta, second)
    Rh = np.fft.fft(R, axis=1)
    mv = np.fft.fftfreq(len(q), 1.0 / len(q))
    Ph = np.empty_like(Rh)
    worst = 1.0
    for I in range(len(q)):
        for j in range(len(z)):
            m0 = (mv[I] == 0)
            sol, cond = dense.solve_discrete(Rh[:, I, j], r, mv[I] ** 2, m0, False, K0=K0_m0 if m0 else None)
            Ph[:, I, j] = sol
            worst = max(worst, cond)
    return np.fft.ifft(Ph, axis=1), Rh, worst


def predicate(c):
    from ..simmpi import core
    cfg = c["cfg"]
    P = c["nprocs"][0] * c["nprocs"][1]
    g, consts = sim.setup_distrib(core.COMM_WORLD, cfg, "v_parallel", [1, 1], save=False)
    eta = g.eta_grid
    want, Rh, worst = reference_phi(c, eta, g.getSpline(0), consts)
    if not np.isfinite(worst) or worst > 1e10:
        raise Inconclusive("ill-conditioned stiffness")
    res, w = run_world(P, _rank, (c,), schedule=c["schedule"], key="C15")
    shape = tuple(cfg["npts"][:3])
    R = density(c, eta)
    modes = sim.assemble([r["modes"] for r in res], shape, "modes")
    back = sim.assemble([r["roundtrip"] for r in res], shape, "roundtrip")
    phi = sim.assemble([r["phi"] for r in res], shape, "phi")
    rs_ = float(np.abs(R).max()) + 1e-300
    if np.abs(modes - Rh).max() > 1e-12 * float(np.abs(Rh).max() + 1e-300):
        raise Violation("C15:modes", "getModes differs from numpy.fft.fft along theta by %.3e" % np.abs(modes - Rh).max())
    if np.abs(back - R).max() > 1e-13 * rs_ * len(eta[1]):
        raise Violation("C15:roundtrip", "findPotential(getModes(rho)) differs from rho by %.3e" % np.abs(back - R).max())
    scale = float(np.abs(want).max()) + 1e-300
    tol = 1e4 * EPS * worst * scale
    err = np.abs(phi - want)
    if not (err <= tol).all():
        idx = tuple(int(x) for x in np.argwhere(~(err <= tol))[0])
        raise Violation("C15:phi", "process grid %s chi=%d %s: phi at global (r,theta,z)=%s is %r, reference %r (|diff| %.3e tol %.3e)"
                        % (c["nprocs"], c["chi"], "adiabatic" if c["adiabatic"] else "kinetic", idx, phi[idx], want[idx],
                           err[idx], tol))
    want2, _, worst2 = reference_phi(c, eta, g.getSpline(0), consts, second=True)
    phi2 = sim.assemble([r["phi_second"] for r in res], shape, "phi_second")
    tol2 = 1e4 * EPS * max(worst, worst2) * (float(np.abs(want2).max()) + 1e-300)
    err2 = np.abs(phi2 - want2)
    if not (err2 <= tol2).all():
        idx = tuple(int(x) for x in np.argwhere(~(err2 <= tol2))[0])
        raise Violation("C15:phi:second-solve", "process grid %s chi=%d %s: second density through the same solver objects: phi at "
                        "global (r,theta,z)=%s is %r, reference %r (|diff| %.3e tol %.3e)"
                        % (c["nprocs"], c["chi"], "adiabatic" if c["adiabatic"] else "kinetic", idx, phi2[idx], want2[idx],
                           err2[idx], tol2))
    if np.abs(phi.imag).max() > tol:
        raise Violation("C15:real", "real density gives a potential with imaginary part %.3e (tol %.3e)" % (np.abs(phi.imag).max(), tol))
    nzm = int((np.abs(Rh).max(axis=(0, 2)) > 1e-9 * np.abs(Rh).max()).sum())
    return {"nontrivial": nzm >= 2 and P >= 2, "labels": ["P=%d" % P, "chi%d" % c["chi"],
                                                         "adiabatic" if c["adiabatic"] else "kinetic",
                                                         "ntheta-%s" % ("even" if cfg["npts"][1] % 2 == 0 else "odd")],
            "evals": 4}


# ----------------------------------------------------------------------------------------------
@st.composite
def eq_cases(draw, tier):
    cfg = draw(sim.sim_config(tier))
    cfg["eps"] = 0.0
    maxP = 6 if tier == "quick" else 12
    g = draw(st.sampled_from(sim.admissible_grids(cfg["npts"], maxP)))
    return {"cfg": cfg, "nprocs": g, "schedule": draw(gen.schedules(8))}


def _eq_rank(ctx, c):
    rs = sim.RankSim(ctx.comm, c["cfg"], c["nprocs"], diagnostics=False)
    rs.f.setLayout('v_parallel')
    f0 = sim.piece(rs.f)
    rs.solve_qn()
    out = {"f0": f0, "rho": sim.piece(rs.rho), "phi": sim.piece(rs.phi)}
    rs.strang_step()
    rs.f.setLayout('v_parallel')
    out["f1"] = sim.piece(rs.f)
    out["phi1"] = sim.piece(rs.phi)
    return out


def eq_pred(c):
    cfg = c["cfg"]
    P = c["nprocs"][0] * c["nprocs"][1]
    res, w = run_world(P, _eq_rank, (c,), schedule=c["schedule"], key="C15:eq")
    s4, s3 = tuple(cfg["npts"]), tuple(cfg["npts"][:3])
    rho = sim.assemble([r["rho"] for r in res], s3, "rho")
    phi = sim.assemble([r["phi"] for r in res], s3, "phi")
    f0 = sim.assemble([r["f0"] for r in res], s4, "f0")
    f1 = sim.assemble([r["f1"] for r in res], s4, "f1")
    phi1 = sim.assemble([r["phi1"] for r in res], s3, "phi1")
    if np.any(rho != 0):
        raise Violation("C15:equilibrium-rho", "perturbed density of the unperturbed equilibrium is not exactly 0 (max %.3e)"
                        % np.abs(rho).max())
    if np.any(phi != 0):
        raise Violation("C15:equilibrium-phi", "potential of the unperturbed equilibrium is not exactly 0 (max %.3e)" % np.abs(phi).max())
    scale = float(np.abs(f0).max())
    if np.abs(f1 - f0).max() > 1e-12 * scale:
        idx = tuple(int(x) for x in np.argwhere(np.abs(f1 - f0) > 1e-12 * scale)[0])
        raise Violation("C15:equilibrium-fixed-point", "a complete time step changed the equilibrium by %.3e (relative %.3e) at %s"
                        % (np.abs(f1 - f0).max(), np.abs(f1 - f0).max() / scale, idx))
    if np.abs(phi1).max() > 1e-9 * scale:
        raise Violation("C15:equilibrium-phi-after-step", "potential after the step is %.3e" % np.abs(phi1).max())
    return {"nontrivial": P >= 2, "labels": ["P=%d" % P, "iota0" if cfg["iotaVal"] == 0 else "iota!=0"], "evals": 2}


SUBS = {"pipeline": Sub(predicate, strategy=cases), "equilibrium": Sub(eq_pred, strategy=eq_cases)}


def jobs(tier):
    n1, n2 = (16, 5) if tier == "quick" else (900, 180)
    return ([{"sub": "pipeline", "n": n1, "shard": i} for i in range(10)] +
            [{"sub": "equilibrium", "n": n2, "shard": i} for i in range(6)])
