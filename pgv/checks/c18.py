"""
C18 -- Checkpoints round-trip exactly and a restarted run continues the original one.
"""
import json
import math
import os
import warnings

import numpy as np
from hypothesis import strategies as st

from .. import gen, sim
from ..harness import Sub, Violation, run_world, crash_is_violation
from ..oracles import globalarr as ga
from . import c05

PROPERTY = "C18"
HANG_SECONDS = 900.0
LINE_BUDGET = 20000000000
RULE = ("(roundtrip) the distribution-function grid in any of its layouts, arbitrary 64-bit patterns (incl. -0.0, "
        "denormals, NaN payloads), written with writeH5Dataset on P_save ranks (mpio-emulating h5py front) and read back "
        "with Grid.loadFromFile and with setupFromFile on P_load ranks (same or different process count and layout): the "
        "assembled global field must be bit-identical (compared through uint64 views) and the file's layout attribute the "
        "dims order; (latest) folders holding 1-5 checkpoints with times 0..1e7 of mixed digit counts, timepoint given or "
        "not: the numerically largest (or requested) one is loaded and the returned time equals it; (constants) "
        "Hypothesis-generated constants files (keys permuted, values replaced by expressions over other keys from the "
        "grammar of the shipped files) -> get_constants -> setupSave printout -> get_constants (printout keys permuted "
        "again): every public constant equals the plain-Python value of its expression, exactly; (restart) the real "
        "driver: run N steps, restart for M more (same or other process count) vs N+M steps in one go, for generated save "
        "intervals >= 1: final grid/phi checkpoints agree (1e-12, bitwise expected) and the files written are those the "
        "save interval prescribes.  Non-trivial = P_save != P_load; times with different digit counts; permuted file with "
        ">= 2 symbolic entries; restart whose first iteration is a save step.")
ASSUMPTIONS = ["simulated MPI + mpio-emulating h5py front (pgv.simh5): file open/create/close collective, hyperslab writes independent",
               "integer dt and integer checkpoint times", "symbolic constants use names, decimal numbers, + - * / ( ) and "
               "math names; every referenced key is present in the file; rp is derived (never given)"]
TIMEOUT = {"quick": 3600, "thorough": 8 * 3600}


def init_worker(tier):
    warnings.simplefilter("ignore")
    sim.install()


# ----------------------------------------------------------------------------------------------
# (i) bit-exact round trip
# ----------------------------------------------------------------------------------------------
@st.composite
def rt_cases(draw, tier):
    nr, nq, nz, nv = draw(st.integers(4, 6)), draw(st.integers(4, 6)), draw(st.integers(4, 6)), draw(st.integers(4, 6))
    cfg = sim.base_cfg([nr, nq, nz, nv])
    maxP = 6 if tier == "quick" else 12
    grids = sim.admissible_grids(cfg["npts"], maxP)
    gs = draw(st.sampled_from(grids))
    gl = draw(st.sampled_from(grids))
    return {"cfg": cfg, "save_grid": gs, "load_grid": gl, "save_layout": draw(st.sampled_from(list(sim.STD_LAYOUTS))),
            "want_layout": draw(st.sampled_from(list(sim.STD_LAYOUTS))), "seed": draw(st.integers(0, 2 ** 16)),
            "time": draw(st.sampled_from([0, 7, 120, 999999, 1000000])), "schedule": draw(gen.schedules(10)),
            "eager": draw(st.booleans())}


def bit_field(c):
    rng = np.random.default_rng(c["seed"])
    shape = tuple(c["cfg"]["npts"])
    bits = rng.integers(0, 2 ** 63, size=shape, dtype=np.uint64) * 2 + rng.integers(0, 2, size=shape, dtype=np.uint64)
    F = bits.view(np.float64).copy()
    flat = F.reshape(-1)
    flat[0] = -0.0
    flat[1] = 5e-324
    flat[2] = -2.2250738585072014e-308 / 4
    flat[3] = np.inf
    return F


def _rt_save(ctx, c, folder):
    f, consts = sim.setup_distrib(ctx.comm, c["cfg"], c["save_layout"], c["save_grid"], save=False)
    sim.fill(f, bit_field(c))
    f.writeH5Dataset(folder, c["time"])
    return True


def _rt_load(ctx, c, folder):
    from pygyro.initialisation.setups import setupFromFile
    out = {}
    f, consts = sim.setup_distrib(ctx.comm, c["cfg"], c["save_layout"], c["load_grid"], save=False)
    f.getAllData()[:] = 0.0
    f.loadFromFile(folder, c["time"])
    out["load_time"] = sim.piece(f)
    # the loaded field must be the grid's real storage: it has to survive a layout change and the way back
    away = [l for l in sim.STD_LAYOUTS if l != c["save_layout"]][(c["seed"] // 3) % 2]
    f.setLayout(away)
    out["load_then_layout"] = sim.piece(f)
    f.setLayout(c["save_layout"])
    out["load_and_back"] = sim.piece(f)
    f.getAllData()[:] = 0.0
    f.loadFromFile(folder)
    out["load_latest"] = sim.piece(f)
    g, cst, t = setupFromFile(folder, comm=ctx.comm, allocateSaveMemory=True, layout=c["want_layout"])
    out["setup"] = sim.piece(g)
    out["setup_layout"] = g.currentLayout
    out["setup_t"] = t
    out["nprocs"] = list(g.getLayout(g.currentLayout).nprocs[:2])
    # a grid that is in ANOTHER layout than the recorded one: the load must either be refused, or give the right field
    others = [l for l in sim.STD_LAYOUTS if l != c["save_layout"]]
    other = others[c["seed"] % len(others)]
    h, _ = sim.setup_distrib(ctx.comm, c["cfg"], other, c["load_grid"], save=False)
    h.getAllData()[:] = 0.0
    try:
        h.loadFromFile(folder, c["time"])
        out["cross"] = ("loaded", sim.piece(h), h.currentLayout, other)
    except (AssertionError, ValueError) as e:
        out["cross"] = ("refused", type(e).__name__, None, other)
    return out


def rt_pred(c):
    from pygyro.utilities.savingTools import setupSave
    from pygyro.initialisation.constants import get_constants
    import h5py
    Ps = c["save_grid"][0] * c["save_grid"][1]
    Pl = c["load_grid"][0] * c["load_grid"][1]
    F = bit_field(c)
    with sim.scratch_cwd("pgv-c18-") as d:
        folder = os.path.join(d, "ckpt")
        os.mkdir(folder)
        with open(os.path.join(folder, "initParams.json"), "w") as fh:
            fh.write(sim.constants_json(c["cfg"]))
        run_world(Ps, _rt_save, (c, folder), schedule=c["schedule"], eager=c["eager"], key="C18:save")
        fn = os.path.join(folder, "grid_%06d.h5" % c["time"])
        if not os.path.exists(fn):
            raise Violation("C18:file-name", "expected checkpoint %s, folder holds %s" % (os.path.basename(fn), os.listdir(folder)))
        with h5py.File(fn, "r") as h:
            order = [int(x) for x in h["/dset"].attrs["Layout"]]
            raw = np.array(h["/dset"])
        if order != sim.STD_LAYOUTS[c["save_layout"]]:
            raise Violation("C18:layout-attribute", "file records layout %s, grid was in %s %s" % (order, c["save_layout"], sim.STD_LAYOUTS[c["save_layout"]]))
        if not ga.bits_equal(raw, np.ascontiguousarray(F.transpose(order))):
            n = int((raw.view(np.uint64) != np.ascontiguousarray(F.transpose(order)).view(np.uint64)).sum())
            raise Violation("C18:file-content", "checkpoint written by %d ranks differs from the global field in %d of %d values" % (Ps, n, raw.size))
        # setupFromFile chooses its own process grid: the load world must admit one
        res, w = run_world(Pl, _rt_load, (c, folder), schedule=c["schedule"], eager=c["eager"], key="C18:load")
    shape = tuple(c["cfg"]["npts"])
    for name in ("load_time", "load_then_layout", "load_and_back", "load_latest", "setup"):
        G = sim.assemble([r[name] for r in res], shape, name)
        if not ga.bits_equal(G, F):
            n = int((G.view(np.uint64) != F.view(np.uint64)).sum())
            raise Violation("C18:roundtrip:" + name, "saved on %d ranks (%s), loaded on %d ranks: %d of %d values are not bit-identical (%s)"
                            % (Ps, c["save_layout"], Pl, n, G.size, name))
    kinds = {r["cross"][0] for r in res}
    if len(kinds) != 1:
        raise Violation("C18:cross-layout:divergent", "loading a %s checkpoint into a grid in layout %s: ranks disagree: %s"
                        % (c["save_layout"], res[0]["cross"][3], [r["cross"][:2] if r["cross"][0] == "refused" else "loaded" for r in res]))
    cross = "refused"
    if kinds == {"loaded"}:
        cross = "loaded"
        G = sim.assemble([r["cross"][1] for r in res], shape, "cross")
        if not ga.bits_equal(G, F):
            n = int((G.view(np.uint64) != F.view(np.uint64)).sum())
            raise Violation("C18:cross-layout:wrong-field", "a %s checkpoint was accepted by a grid in layout %s (which now reports %s) but "
                            "%d of %d values are not the saved global field" % (c["save_layout"], res[0]["cross"][3], res[0]["cross"][2], n, G.size))
    if any(r["setup_layout"] != c["want_layout"] for r in res):
        raise Violation("C18:setup-layout", "setupFromFile(layout=%s) returned a grid in layout %s" % (c["want_layout"], res[0]["setup_layout"]))
    if any(r["setup_t"] != c["time"] for r in res):
        raise Violation("C18:setup-time", "setupFromFile returned t=%r, checkpoint time %r" % (res[0]["setup_t"], c["time"]))
    return {"nontrivial": Ps != Pl, "labels": ["Psave=%d" % Ps, "Pload=%d" % Pl, c["save_layout"],
                                              "same-layout" if c["save_layout"] == c["want_layout"] else "other-layout",
                                              "cross-layout-load-" + cross],
            "evals": 6}


# ----------------------------------------------------------------------------------------------
# (ii) latest-file selection
# ----------------------------------------------------------------------------------------------
TIMES = [0, 1, 2, 9, 10, 99, 100, 5000, 99999, 100000, 999998, 999999, 1000000, 1000001, 2000000, 9999999, 10000000]


@st.composite
def latest_cases(draw, tier):
    cfg = sim.base_cfg([4, 4, 4, 4])
    times = draw(st.lists(st.one_of(st.sampled_from(TIMES), st.integers(0, 10 ** 7)), min_size=1, max_size=5, unique=True))
    pick = draw(st.one_of(st.none(), st.sampled_from(times)))
    P = draw(st.sampled_from([1, 2, 3]))
    # in one case of three, additionally a request for a time of which there is no checkpoint
    absent = None
    if draw(st.integers(0, 2)) == 0:
        absent = draw(st.one_of(st.sampled_from([x + 1 for x in times] + [max(times) + 10]), st.integers(0, 10 ** 7)).filter(
            lambda x: x not in times))
    return {"cfg": cfg, "times": times, "timepoint": pick, "absent": absent, "P": P, "schedule": draw(gen.schedules(6))}


def _latest_rank(ctx, c, folder):
    from pygyro.initialisation.setups import setupFromFile
    kw = {}
    if c["timepoint"] is not None:
        kw["timepoint"] = c["timepoint"]
    g, cst, t = setupFromFile(folder, comm=ctx.comm, allocateSaveMemory=False, layout="v_parallel", **kw)
    first = float(np.asarray(g.getAllData()).flat[0])
    f2, _ = sim.setup_distrib(ctx.comm, c["cfg"], "v_parallel", None, save=False)
    f2.loadFromFile(folder, c["timepoint"])
    absent = None
    if c.get("absent") is not None:
        # there is nothing to resume from at that time: the request cannot be met (the unchanged code refuses it)
        try:
            g3, _, t3 = setupFromFile(folder, comm=ctx.comm, allocateSaveMemory=False, layout="v_parallel", timepoint=c["absent"])
            absent = ("returned", t3, float(np.asarray(g3.getAllData()).flat[0]))
        except Exception as e:  # noqa
            absent = ("refused", type(e).__name__)
    return (t, first, float(np.asarray(f2.getAllData()).flat[0]), absent)


def latest_pred(c):
    import h5py
    with sim.scratch_cwd("pgv-c18-") as d:
        folder = os.path.join(d, "ck")
        os.mkdir(folder)
        with open(os.path.join(folder, "initParams.json"), "w") as fh:
            fh.write(sim.constants_json(c["cfg"]))
        shape = [c["cfg"]["npts"][i] for i in sim.STD_LAYOUTS["v_parallel"]]
        for t in c["times"]:
            with h5py.File(os.path.join(folder, "grid_%06d.h5" % t), "w") as h:
                ds = h.create_dataset("dset", shape, dtype=float)
                ds[...] = float(t) + 0.5           # content identifies the file
                ds.attrs.create("Layout", np.array(sim.STD_LAYOUTS["v_parallel"]), (4,), h5py.h5t.STD_I32BE)
        res, w = run_world(c["P"], _latest_rank, (c, folder), schedule=c["schedule"], key="C18:latest")
    want = c["timepoint"] if c["timepoint"] is not None else max(c["times"])
    for rk, (t, first, first2, absent) in enumerate(res):
        if absent is not None and absent[0] == "returned":
            raise Violation("C18:latest:absent-checkpoint", "checkpoints %s, timepoint=%r requested although grid_%06d.h5 does not "
                            "exist: setupFromFile returned a grid labelled t=%r (first value %r) instead of refusing"
                            % (sorted(c["times"]), c["absent"], c["absent"], absent[1], absent[2]))
        if first != want + 0.5:
            raise Violation("C18:latest:setup-file", "checkpoints %s, timepoint=%r: setupFromFile loaded the file of t=%r, expected t=%r"
                            % (sorted(c["times"]), c["timepoint"], first - 0.5, want))
        if t != want:
            raise Violation("C18:latest:setup-time", "checkpoints %s, timepoint=%r: setupFromFile returned t=%r, expected %r"
                            % (sorted(c["times"]), c["timepoint"], t, want))
        if first2 != want + 0.5:
            raise Violation("C18:latest:load-file", "checkpoints %s, time=%r: Grid.loadFromFile loaded the file of t=%r, expected t=%r"
                            % (sorted(c["times"]), c["timepoint"], first2 - 0.5, want))
    digits = {len(str(t)) for t in c["times"]}
    return {"nontrivial": len(digits) >= 2, "labels": ["timepoint" if c["timepoint"] is not None else "latest",
                                                       ">=1e6" if max(c["times"]) >= 10 ** 6 else "<1e6"] +
            (["absent-request"] if c.get("absent") is not None else []), "evals": 2 + (c.get("absent") is not None)}


# ----------------------------------------------------------------------------------------------
# (iii) constants files
# ----------------------------------------------------------------------------------------------
BASE = {"B0": 1.0, "R0": 239.8081535, "rMin": 0.1, "rMax": 14.5, "zMin": 0.0, "zMax": 1506.759067, "vMax": 7.32,
        "vMin": -7.32, "eps": 1e-6, "eps0": 8.854187817e-12, "kN0": 0.055, "kTi": 0.27586, "kTe": 0.27586,
        "deltaRTi": 1.45, "deltaRTe": 1.45, "deltaRN0": 2.9, "deltaR": 8.0, "CTi": 1.0, "CTe": 1.0, "m": 15, "n": -11,
        "iotaVal": 0.8, "npts": [32, 16, 32, 16], "splineDegrees": [3, 3, 3, 3], "dt": 2}
SCALARS = [k for k, v in BASE.items() if not isinstance(v, list)]


@st.composite
def const_cases(draw, tier):
    keys = list(BASE)
    order = list(draw(st.permutations(keys)))
    vals = {}
    numeric = st.one_of(st.floats(0.01, 20).map(lambda x: round(x, 6)), st.integers(1, 20), st.floats(-9, -0.01).map(lambda x: round(x, 4)))
    # the constants entering the density normalisation stay in a physically meaningful range (and numeric):
    # CN0 = (rMax-rMin)/int exp(-kN0 deltaRN0 tanh(...)) must exist
    sane = {"rMin": st.floats(0.05, 1.0).map(lambda x: round(x, 4)), "rMax": st.floats(5.0, 20.0).map(lambda x: round(x, 4)),
            "kN0": st.floats(0.01, 0.2).map(lambda x: round(x, 5)), "deltaRN0": st.floats(1.0, 5.0).map(lambda x: round(x, 4))}
    for k in keys:
        if isinstance(BASE[k], list):
            vals[k] = BASE[k] if draw(st.booleans()) else [draw(st.integers(4, 64)) for _ in range(4)]
        elif k in sane:
            vals[k] = BASE[k] if draw(st.booleans()) else draw(sane[k])
        elif k in ("m", "n", "dt"):
            vals[k] = draw(st.integers(-12, 20)) if k != "dt" else draw(st.integers(1, 5))
        elif draw(st.integers(0, 2)) == 0:
            vals[k] = BASE[k]
        else:
            vals[k] = draw(numeric)
    # symbolic entries: key i may reference keys later in a random topological order (acyclic by construction)
    topo = list(draw(st.permutations([k for k in SCALARS if k not in ("rMin", "rMax", "kN0", "deltaRN0")])))
    nsym = draw(st.integers(0, 8))
    sym = {}
    for k in topo[:nsym]:
        later = topo[topo.index(k) + 1:]
        if not later:
            continue
        kind = draw(st.integers(0, 5))
        a = draw(st.sampled_from(later))
        b = draw(st.sampled_from(later))
        num = draw(st.sampled_from(["2.0", "4.0", "0.5", "3", "1.25"]))
        expr = ["%s" % a, "-%s" % a, "%s*%s" % (num, a), "%s*%s/%s" % (num, a, b) if b not in ("zMin",) else "%s+%s" % (a, b),
                "(%s+%s)*%s" % (a, b, num), "%s*2*pi" % a][kind]
        sym[k] = expr
    if draw(st.integers(0, 2)) == 0:
        # an explicitly given density normalisation (otherwise it is derived from the radial profile)
        vals["CN0"] = draw(st.floats(0.05, 2.0).map(lambda x: round(x, 6)))
        order.insert(draw(st.integers(0, len(order))), "CN0")
    spaces = draw(st.booleans())
    return {"order": order, "vals": vals, "sym": sym, "spaces": spaces, "perm2": list(draw(st.permutations(list(range(40))))),
            "P": draw(st.sampled_from([1, 2, 3])), "root": draw(st.integers(0, 2)), "schedule": draw(gen.schedules(6)),
            # the output folder is new, exists empty, or already holds the parameter file of another run
            "folder": draw(st.sampled_from(["new", "empty", "used"]))}


def expected_constants(c):
    """Plain-Python evaluation of the same file."""
    vals = dict(c["vals"])
    ns = {"pi": math.pi}
    pending = dict(c["sym"])
    for k, v in vals.items():
        if k not in pending:
            ns[k] = v
    guard = 0
    while pending:
        guard += 1
        if guard > 100:
            raise RuntimeError("generator error: cyclic constants")
        for k in list(pending):
            try:
                ns[k] = eval(pending[k], {"__builtins__": {}}, dict(ns))
                del pending[k]
            except NameError:
                pass
    ns.pop("pi")
    # division by zero etc. is the generator's fault
    return ns


def file_text(c):
    items = []
    for k in c["order"]:
        v = c["sym"].get(k, c["vals"][k])
        if isinstance(v, str) and c["spaces"]:
            v = v.replace("*", " * ").replace("+", " + ")
        items.append("\"%s\":%s" % (k, json.dumps(v)))
    return "{\n" + ",\n".join(items) + "\n}"


def _const_rank(ctx, c, path, folder):
    from pygyro.initialisation.constants import get_constants
    from pygyro.utilities.savingTools import setupSave
    c1 = get_constants(path)
    name = setupSave(c1, folder, comm=ctx.comm, root=min(c["root"], ctx.size - 1))
    return {k: getattr(c1, k) for k in dir(c1) if not k.startswith("_") and not callable(getattr(c1, k))}, name


def const_pred(c):
    from pygyro.initialisation.constants import get_constants
    try:
        exp = expected_constants(c)
    except ZeroDivisionError:
        return {"nontrivial": False, "labels": ["division-by-zero-in-generated-file"]}
    with sim.scratch_cwd("pgv-c18-") as d:
        path = os.path.join(d, "in.json")
        with open(path, "w") as fh:
            fh.write(file_text(c))
        folder = os.path.join(d, "out")
        if c.get("folder", "new") != "new":
            os.mkdir(folder)
            if c["folder"] == "used":
                with open(os.path.join(folder, "initParams.json"), "w") as fh:
                    json.dump(BASE, fh)
        with crash_is_violation("C18:constants:parse", "get_constants on the generated file"):
            res, w = run_world(c["P"], _const_rank, (c, path, folder), schedule=c["schedule"], key="C18:constants")
        first = res[0][0]
        for k, v in exp.items():
            if first.get(k) != v or type(first.get(k)) is not type(v) and not (isinstance(v, (int, float)) and first.get(k) == v):
                raise Violation("C18:constants:value", "constant %s: file says %r -> %r, get_constants gives %r"
                                % (k, c["sym"].get(k, c["vals"][k]), v, first.get(k)))
        if first.get("rp") != 0.5 * (exp["rMin"] + exp["rMax"]):
            raise Violation("C18:constants:rp", "rp=%r, expected the mid radius %r" % (first.get("rp"), 0.5 * (exp["rMin"] + exp["rMax"])))
        if any(r[0] != first for r in res):
            raise Violation("C18:constants:rank-dependent", "ranks parsed different constants")
        if any(r[1] != folder for r in res):
            raise Violation("C18:constants:foldername", "setupSave returned %s" % [r[1] for r in res])
        saved = os.path.join(folder, "initParams.json")
        with crash_is_violation("C18:constants:reload", "get_constants on the saved parameter file"):
            c2 = get_constants(saved)
            with open(saved) as fh:
                dd = json.load(fh)
            keys = list(dd)
            perm = [keys[i % len(keys)] for i in c["perm2"]]
            seen = []
            for k in perm + keys:
                if k not in seen:
                    seen.append(k)
            with open(os.path.join(d, "perm.json"), "w") as fh:
                json.dump({k: dd[k] for k in seen}, fh)
            c3 = get_constants(os.path.join(d, "perm.json"))
        for k, v in first.items():
            for name, cc in (("saved parameter file", c2), ("saved parameter file with permuted keys", c3)):
                if getattr(cc, k) != v:
                    raise Violation("C18:constants:roundtrip", "%s: constant %s = %r, original %r" % (name, k, getattr(cc, k), v))
    return {"nontrivial": len(c["sym"]) >= 2, "labels": ["sym=%d" % min(len(c["sym"]), 4), "P=%d" % c["P"],
                                                       "folder-" + c.get("folder", "new")], "evals": 3}


# ----------------------------------------------------------------------------------------------
# (iv) restart histories through the real driver
# ----------------------------------------------------------------------------------------------
@st.composite
def restart_cases(draw, tier):
    nr, nq, nz, nv = draw(st.integers(5, 6)), draw(st.integers(6, 7)), draw(st.integers(7, 8)), draw(st.integers(5, 6))
    cfg = sim.base_cfg([nr, nq, nz, nv], draw(st.sampled_from([0.8, 0.0])), draw(st.sampled_from([2.0, 239.8081535])),
                       eps=1e-2, m=draw(st.integers(1, 2)), n=draw(st.integers(-1, 1)), dt=draw(st.sampled_from([1, 2])))
    ph = draw(sim.phys())
    if ph:
        cfg["phys"] = ph
    N = draw(st.integers(1, 3 if tier == "thorough" else 2))
    M = draw(st.integers(1, 3 if tier == "thorough" else 2))
    return {"cfg": cfg, "N": N, "M": M, "saveStep": draw(st.integers(1, 4)), "P1": draw(st.sampled_from([1, 2, 3, 4])),
            "P2": draw(st.sampled_from([1, 2, 3, 4])), "schedule": draw(gen.schedules(8))}


def expected_files(a, b, save, dt, fresh):
    ks = set()
    if fresh:
        ks.add(0)
    for k in range(a + 1, b + 1):
        if k % save == 0:
            ks.add(k)
    if b % save != 0:
        ks.add(b)
    return {"%s_%06d.h5" % (p, k * dt) for k in ks for p in ("grid", "phi")}


def restart_pred(c):
    cfg = c["cfg"]
    dt = cfg["dt"]
    N, M, S = c["N"], c["M"], c["saveStep"]
    with sim.scratch_cwd("pgv-c18-") as d:
        with open("consts.json", "w") as fh:
            fh.write(sim.constants_json(cfg))
        try:
            c05.run_driver(c["P1"], "split", "consts.json", N * dt, S, c["schedule"], key="C18:driver")
            f1 = {f for f in os.listdir("split") if f.endswith(".h5")}
            c05.run_driver(c["P2"], "split", "", (N + M) * dt, S, c["schedule"], key="C18:driver-restart")
            f2 = {f for f in os.listdir("split") if f.endswith(".h5")}
            c05.run_driver(c["P1"], "whole", "consts.json", (N + M) * dt, S, c["schedule"], key="C18:driver")
            fw = {f for f in os.listdir("whole") if f.endswith(".h5")}
        except Violation as v:
            if "no valid combination of processors" in v.msg:
                return {"nontrivial": False, "labels": ["no-process-grid"]}
            raise
        e1 = expected_files(0, N, S, dt, True)
        e2 = e1 | expected_files(N, N + M, S, dt, False)
        ew = expected_files(0, N + M, S, dt, True)
        for got, want, what in ((f1, e1, "first run (N=%d)" % N), (f2, e2, "after the restart (N=%d, M=%d)" % (N, M)),
                                (fw, ew, "unsplit run (N+M=%d)" % (N + M))):
            if got != want:
                raise Violation("C18:restart:file-set", "save interval %d, dt %d, %s: checkpoints %s, prescribed %s"
                                % (S, dt, what, sorted(got), sorted(want)))
        final = (N + M) * dt
        for pre in ("grid", "phi"):
            a = c05.read_h5(os.path.join("split", "%s_%06d.h5" % (pre, final)))
            b = c05.read_h5(os.path.join("whole", "%s_%06d.h5" % (pre, final)))
            c05._close("%s at t=%d" % (pre, final), a, b, "run(%d)+restart(%d) on %d/%d ranks vs run(%d) on %d ranks, saveStep %d"
                       % (N, M, c["P1"], c["P2"], N + M, c["P1"], S), 1e-12, "C18:restart:" + pre)
    first_is_save = (N + 1) % S == 0 or S == 1
    return {"nontrivial": first_is_save or c["P1"] != c["P2"],
            "labels": ["saveStep=%d" % S, "P1!=P2" if c["P1"] != c["P2"] else "P1==P2",
                       "restart-first-iteration-saves" if first_is_save else "restart-first-iteration-plain"], "evals": 3}


SUBS = {"roundtrip": Sub(rt_pred, strategy=rt_cases), "latest": Sub(latest_pred, strategy=latest_cases),
        "constants": Sub(const_pred, strategy=const_cases), "restart": Sub(restart_pred, strategy=restart_cases)}


def jobs(tier):
    n1, n2, n3, n4 = (12, 30, 60, 4) if tier == "quick" else (1500, 3000, 10000, 60)
    return ([{"sub": "roundtrip", "n": n1, "shard": i} for i in range(4)] +
            [{"sub": "latest", "n": n2, "shard": i} for i in range(2)] +
            [{"sub": "constants", "n": n3, "shard": i} for i in range(3)] +
            [{"sub": "restart", "n": n4, "shard": i} for i in range(7)])
