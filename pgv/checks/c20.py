"""
C20 -- Process-grid selection returns a valid factorisation or reports none exists.
"""
import signal
import sys

import numpy as np
from hypothesis import strategies as st

from ..harness import Sub, Violation, crash_is_violation

PROPERTY = "C20"
RULE = ("(box) exhaustive enumeration of all triples (max1, max2, P) in a box through the real "
        "compute_2d_process_grid_from_max, oracle = brute-force enumeration of divisor pairs (valid pair <=> "
        "a*b==P, 1<=a<=max1, 1<=b<=max2; RuntimeError iff none exists; nothing else raised), termination "
        "by a sys.settrace line budget on a stride sample and on any slab that is slow; (far) Hypothesis triples "
        "up to 1e6 biased to highly composite / prime P; (npts) the 4-tuple front end, then the three standard "
        "layouts are built for every rank coordinate (non-empty blocks, connected) and, for P<=12, really "
        "transposed on a simulated world; (setup) setupCylindricalGrid on simulated worlds with and without a plot-only "
        "rank: the grid used by the data ranks must be admissible for the number of DATA ranks.  Non-trivial = P composite with >=2 admissible factorisations, or "
        "none admissible; distinct = distinct triple.")
ASSUMPTIONS = ["arguments are positive integers (what setups.py passes)",
               "termination is decided as a bounded claim: a line-event budget of 50*(P+max1)+1000 per call"]

BOX = {"quick": (48, 48, 96), "thorough": (192, 192, 768)}


class _Budget(Exception):
    pass


def _traced(fn, args, budget):
    n = [0]

    def tracer(frame, event, arg):
        if event == "line":
            n[0] += 1
            if n[0] > budget:
                raise _Budget()
        return tracer
    old = sys.gettrace()
    sys.settrace(tracer)
    try:
        return fn(*args)
    finally:
        sys.settrace(old)


def _pairs(P, m1, m2):
    return [(a, P // a) for a in range(1, min(P, m1) + 1) if P % a == 0 and P // a <= m2]


class _Alarm(Exception):
    pass


def _guarded(f, args, budget, seconds=5.0):
    """
    Untraced call under a wall-clock alarm.  The alarm is never a verdict: when it fires the call is
    repeated under the deterministic line-event budget, which decides.
    """
    def on_alarm(sig, frm):
        raise _Alarm()
    old = signal.signal(signal.SIGALRM, on_alarm)
    signal.setitimer(signal.ITIMER_REAL, seconds)
    try:
        try:
            return f(*args)
        finally:
            signal.setitimer(signal.ITIMER_REAL, 0)
    except _Alarm:
        return _traced(f, args, budget)
    finally:
        signal.signal(signal.SIGALRM, old)


def check_triple(m1, m2, P, traced=False, guarded=False):
    """Returns number of admissible factorisations; raises Violation."""
    from pygyro.model.process_grid import compute_2d_process_grid_from_max as f
    valid = _pairs(P, m1, m2)
    budget = 50 * (P + m1) + 1000
    try:
        if traced:
            res = _traced(f, (m1, m2, P), budget)
        elif guarded:
            res = _guarded(f, (m1, m2, P), budget)
        else:
            res = f(m1, m2, P)
    except RuntimeError:
        if valid:
            raise Violation("C20:spurious-error", "max=(%d,%d) P=%d: RuntimeError although %s are admissible"
                            % (m1, m2, P, valid[:4]))
        return 0
    except _Budget:
        raise Violation("C20:nontermination", "max=(%d,%d) P=%d: more than %d line events"
                        % (m1, m2, P, budget))
    except Violation:
        raise
    except Exception as e:  # noqa
        raise Violation("C20:crash:" + type(e).__name__, "max=(%d,%d) P=%d raised %s: %s"
                        % (m1, m2, P, type(e).__name__, e))
    try:
        a, b = res
        ok = (int(a) == a and int(b) == b and a >= 1 and b >= 1 and a * b == P and a <= m1 and b <= m2)
    except Exception:
        ok = False
    if not ok:
        why = "no admissible pair exists (error expected)" if not valid else "admissible pairs: %s" % valid[:4]
        raise Violation("C20:invalid-grid" if valid else "C20:missing-error",
                        "max=(%d,%d) P=%d returned %r; %s" % (m1, m2, P, res, why))
    return len(valid)


class _Slow(BaseException):
    pass


def box_slab(case):
    m1 = case["max1"]
    N2, NP = case["max2_max"], case["P_max"]
    stride = case.get("stride", 7)

    def run(all_traced):
        evals = nontriv = 0
        sample = None
        k = 0
        for m2 in range(1, N2 + 1):
            for P in range(1, NP + 1):
                k += 1
                nv = check_triple(m1, m2, P, traced=all_traced or (k % stride == 0))
                evals += 1
                if nv == 0 or nv >= 2:
                    nontriv += 1
                    if sample is None and nv >= 2 and m2 > 2:
                        sample = {"max1": m1, "max2": m2, "P": P, "admissible": nv}
        return evals, nontriv, sample

    def on_alarm(sig, frm):
        raise _Slow()
    old = signal.signal(signal.SIGALRM, on_alarm)
    signal.setitimer(signal.ITIMER_REAL, 30.0)
    try:
        try:
            evals, nontriv, sample = run(False)
        finally:
            signal.setitimer(signal.ITIMER_REAL, 0)
    except _Slow:
        # never a verdict by itself: redo the slab with every call under the deterministic line budget
        evals, nontriv, sample = run(True)
    finally:
        signal.signal(signal.SIGALRM, old)
    return {"evals": evals, "nontrivial_count": nontriv, "sample": sample or case, "labels": ["slab"]}


def box_enum(tier, shard, nshards):
    n1, n2, nP = BOX[tier]
    for m1 in range(1, n1 + 1):
        if (m1 - 1) % nshards == shard:
            yield {"max1": m1, "max2_max": n2, "P_max": nP}


# ---------------------------------------------------------------------------------
HC = [1, 2, 4, 6, 12, 24, 36, 48, 60, 120, 180, 240, 360, 720, 840, 1260, 1680, 2520, 5040, 7560, 10080,
      15120, 20160, 25200, 27720, 45360, 50400, 55440, 83160, 110880, 166320, 221760, 277200, 332640,
      498960, 554400, 665280, 720720]
PRIMES = [2, 3, 5, 7, 11, 13, 97, 101, 127, 251, 257, 509, 521, 1009, 4099, 8191, 65537, 99991, 524287, 999983]


@st.composite
def far_cases(draw, tier):
    kind = draw(st.sampled_from(["hc", "prime", "semi", "any", "pow2"]))
    if kind == "hc":
        P = draw(st.sampled_from(HC))
    elif kind == "prime":
        P = draw(st.sampled_from(PRIMES))
    elif kind == "semi":
        P = draw(st.sampled_from(PRIMES[:12])) * draw(st.sampled_from(PRIMES[:12]))
    elif kind == "pow2":
        P = 2 ** draw(st.integers(0, 19))
    else:
        P = draw(st.integers(1, 10 ** 6))
    # maxima around interesting divisors of P
    divs = [d for d in range(1, min(P, 2000) + 1) if P % d == 0]
    def mx():
        c = draw(st.integers(0, 3))
        if c == 0:
            return draw(st.integers(1, 10 ** 6))
        d = draw(st.sampled_from(divs))
        if c == 1:
            return max(1, d + draw(st.integers(-1, 1)))
        if c == 2:
            return max(1, P // d + draw(st.integers(-1, 1)))
        return draw(st.integers(1, 64))
    return {"max1": mx(), "max2": mx(), "P": P, "kind": kind}


def far_pred(case):
    m1, m2, P = case["max1"], case["max2"], case["P"]
    if P + m1 > 20000:
        # the line budget would dominate the run time: untraced call, brute force still decides validity
        nv = check_triple(m1, m2, P, guarded=True)
    else:
        nv = check_triple(m1, m2, P, traced=True)
    return {"nontrivial": nv == 0 or nv >= 2, "labels": [case["kind"], "none" if nv == 0 else ("one" if nv == 1 else "many")]}


# ---------------------------------------------------------------------------------
STD = {'flux_surface': [0, 3, 1, 2], 'v_parallel': [0, 2, 1, 3], 'poloidal': [3, 2, 1, 0]}


class _StubComm:
    def __init__(self, n):
        self._n = n

    def Get_size(self):
        return self._n


@st.composite
def npts_cases(draw, tier):
    small = draw(st.booleans())
    hi = 9 if small else 40
    npts = [draw(st.integers(1, hi)) for _ in range(4)]
    P = draw(st.integers(1, 12 if small else 64))
    return {"npts": npts, "P": P, "schedule": draw(st.lists(st.integers(0, 11), max_size=8))}


def npts_pred(case):
    from pygyro.model.process_grid import compute_2d_process_grid
    from pygyro.model.layout import LayoutHandler
    npts, P = case["npts"], case["P"]
    m1, m2 = min(npts[0], npts[3]), min(npts[2], npts[3])
    valid = _pairs(P, m1, m2)
    try:
        res = _traced(compute_2d_process_grid, (npts, P), 50 * (P + m1) + 1100)
    except RuntimeError:
        if valid:
            raise Violation("C20:spurious-error", "npts=%s P=%d: RuntimeError although %s admissible" % (npts, P, valid[:4]))
        return {"nontrivial": True, "labels": ["none"]}
    except _Budget:
        raise Violation("C20:nontermination", "npts=%s P=%d exceeded the line budget" % (npts, P))
    except Exception as e:  # noqa
        raise Violation("C20:crash:" + type(e).__name__, "npts=%s P=%d raised %s: %s" % (npts, P, type(e).__name__, e))
    a, b = res
    if not (a * b == P and 1 <= a <= m1 and 1 <= b <= m2):
        raise Violation("C20:invalid-grid" if valid else "C20:missing-error",
                        "npts=%s P=%d returned %r (admissible: %s)" % (npts, P, res, valid[:4]))
    eta = [np.linspace(0, 1, n) for n in npts]
    comms = [_StubComm(a), _StubComm(b)]
    with crash_is_violation("C20:layouts", "building the standard layouts on grid %s for npts %s" % (res, npts)):
        for ca in range(a):
            for cb in range(b):
                h = LayoutHandler(comms, [ca, cb], dict(STD), [a, b], eta)
                for name in STD:
                    l = h.getLayout(name)
                    if min(l.shape) < 1:
                        raise Violation("C20:empty-block", "npts=%s P=%d grid %r: rank (%d,%d) owns an empty block %s in %s"
                                        % (npts, P, res, ca, cb, l.shape, name))
    labels = ["none" if not valid else ("one" if len(valid) == 1 else "many")]
    if P <= 12 and max(npts) <= 9:
        from . import c01
        c01.predicate({"shape": npts, "nprocs": [a, b], "layouts": [[k, v] for k, v in STD.items()],
                       "mode": "std", "dtype": "float64",
                       "ops": [[i, j, bool((i + j) % 2), False] for i in range(3) for j in range(3) if i != j],
                       "schedule": case.get("schedule", []),
                       # an earlier handler on the same communicator with the transposed grid shape
                       "decoy": [b, a] if a != b else None})
        labels.append("transposed-on-world")
    return {"nontrivial": len(valid) != 1, "labels": labels}


# ------------------------------------------------------------------------------------------------
# the set-up functions choose the grid for the ranks that hold data (all of them, or all but the plotting rank)
# ------------------------------------------------------------------------------------------------
@st.composite
def setup_cases(draw, tier):
    npts = [draw(st.integers(4, 7)) for _ in range(4)]      # cubic clamped splines need >= 4 points
    plot = draw(st.booleans())
    m1, m2 = min(npts[0], npts[3]), min(npts[2], npts[3])
    sizes = [P for P in range(2, (5 if tier == "quick" else 8) + 1) if _pairs(P - 1 if plot else P, m1, m2)]
    if not sizes:
        plot, sizes = False, [1]
    P = draw(st.sampled_from(sizes))
    return {"npts": npts, "P": P, "plot": plot, "drawRank": draw(st.integers(0, P - 1)),
            "layout": draw(st.sampled_from(["flux_surface", "v_parallel", "poloidal"]))}


def _setup_rank(ctx, c):
    from pygyro.initialisation.setups import setupCylindricalGrid
    grid, consts, t = setupCylindricalGrid(layout=c["layout"], comm=ctx.comm, plotThread=c["plot"], drawRank=c["drawRank"],
                                           npts=list(c["npts"]))
    l = grid.getLayout(grid.currentLayout)
    return ([int(x) for x in l.nprocs], int(grid.getAllData().size))


def setup_pred(c):
    from ..harness import run_world
    npts, P = c["npts"], c["P"]
    ndata = P - 1 if c["plot"] else P
    m1, m2 = min(npts[0], npts[3]), min(npts[2], npts[3])
    valid = _pairs(ndata, m1, m2)
    if not valid:
        return {"nontrivial": False, "labels": ["no-process-grid"]}
    res, w = run_world(P, _setup_rank, (c,), key="C20:setup")
    for rk, (nprocs, size) in enumerate(res):
        if c["plot"] and rk == c["drawRank"]:
            continue
        pair = tuple(nprocs[:2])
        if pair not in valid:
            raise Violation("C20:setup:invalid-grid", "npts %s on %d ranks (%d holding data%s): rank %d works with process grid %s; "
                            "admissible for %d data ranks: %s" % (npts, P, ndata, ", one plot-only rank" if c["plot"] else "", rk,
                                                                  pair, ndata, valid))
        if size == 0:
            raise Violation("C20:setup:empty-block", "npts %s, grid %s: data rank %d owns no point" % (npts, pair, rk))
    return {"nontrivial": c["plot"] or len(valid) >= 2, "labels": ["P=%d" % P, "plot-only-rank" if c["plot"] else "all-compute"]}


SUBS = {
    "setup": Sub(setup_pred, strategy=setup_cases),
    "box": Sub(box_slab, enumerate=box_enum, exhaustive=True),
    "far": Sub(far_pred, strategy=far_cases),
    "npts": Sub(npts_pred, strategy=npts_cases),
}


def init_worker(tier):
    import warnings
    warnings.simplefilter("ignore")


def jobs(tier):
    out = [{"sub": "box", "shard": i, "nshards": 16} for i in range(16)]
    nf, nn = (300, 150) if tier == "quick" else (20000, 8000)
    out += [{"sub": "far", "n": nf, "shard": i} for i in range(8)]
    out += [{"sub": "setup", "n": 15 if tier == "quick" else 600, "shard": i} for i in range(4)]
    out += [{"sub": "npts", "n": nn, "shard": i} for i in range(8)]
    return out


def coverage_extra(tier):
    n1, n2, nP = BOX[tier]
    return {"box": {"max1": [1, n1], "max2": [1, n2], "P": [1, nP], "triples": n1 * n2 * nP}}
