"""
C04 -- Grid layout changes and save/restore behave like a single global array.
"""
import itertools
import warnings

import numpy as np
from hypothesis import strategies as st

from .. import gen, managers as mg
from ..harness import Sub, Violation, run_world
from ..oracles import globalarr as ga

PROPERTY = "C04"
HANG_SECONDS = 60.0
LINE_BUDGET = 1000000000
RULE = ("Histories over {setLayout(L) for every layout, write(k) (overwrite with the k-th injective pattern), "
        "save, restore, free} incl. the illegal calls, executed on a real Grid on every rank of a simulated "
        "world and on a numpy model (global array, current layout, saved (array, layout) or none); after "
        "EVERY step getAllData() must equal the model block bit-for-bit and currentLayout the model layout; "
        "illegal calls must raise on every rank and leave the state unchanged.  (exhaustive) all histories up "
        "to length 4 (quick) / 6 (thorough) on three fixed configurations (grids (2,2),(1,3),(3,1), uneven "
        "extents, float and complex); (random) Hypothesis configurations (handlers and swappers, with and "
        "without save memory) with histories up to 30 steps biased to save -> >=2 setLayout -> restore. "
        "Non-trivial = history contains save, then >=2 layout changes or a write, then restore, on >=2 ranks; "
        "distinct = distinct case digest / distinct enumerated history.")
ASSUMPTIONS = ["simulated MPI (pgv.simmpi)", "bsplines argument of Grid is unused by the exercised methods (None passed)"]

STD = [["flux_surface", [0, 3, 1, 2]], ["v_parallel", [0, 2, 1, 3]], ["poloidal", [3, 2, 1, 0]]]
FIXED = [
    {"cfg": {"kind": "handler", "shape": [3, 2, 5, 4], "nprocs": [2, 2], "layouts": STD}, "dtype": "float64",
     "save": True, "start": "flux_surface"},
    {"cfg": {"kind": "handler", "shape": [3, 2, 5, 4], "nprocs": [1, 3], "layouts": STD}, "dtype": "complex128",
     "save": True, "start": "v_parallel"},
    {"cfg": {"kind": "handler", "shape": [3, 2, 5, 4], "nprocs": [3, 1], "layouts": STD}, "dtype": "float64",
     "save": True, "start": "poloidal"},
]
MAXLEN = {"quick": 4, "thorough": 6}


def init_worker(tier):
    warnings.simplefilter("ignore")


def _alphabet(names):
    return [["set", n] for n in names] + [["write"], ["save"], ["restore"], ["free"]]


def enum_cases(tier, shard, nshards):
    k = 0
    for ci, base in enumerate(FIXED):
        names = [n for n, _ in base["cfg"]["layouts"]]
        alpha = _alphabet(names)
        for L in range(1, MAXLEN[tier] + 1):
            for ops in itertools.product(alpha, repeat=L):
                if k % nshards == shard:
                    c = dict(base)
                    c["ops"] = [list(o) for o in ops]
                    c["schedule"] = []
                    c["fixed"] = ci
                    yield c
                k += 1


@st.composite
def cases(draw, tier):
    if draw(st.integers(0, 2)) == 0:
        cfg = draw(mg.swapper_config(tier, max_extent=7, allow_empty=True))
        start = cfg["start"]
    else:
        cfg = draw(mg.handler_config(tier, min_dims=3, max_extent=7, allow_empty=True))
        start = draw(st.sampled_from([n for n, _ in cfg["layouts"]]))
    names = [n for n, _ in mg.all_layouts(cfg)]
    nl = len(names)
    kinds = st.sampled_from(["set", "set", "set", "write", "save", "restore", "free", "loop", "loop"])
    toks = draw(st.lists(st.tuples(kinds, st.integers(0, nl - 1), st.integers(0, nl - 1), st.booleans()),
                         min_size=1, max_size=12))
    ops = []
    for k, i, j, w in toks:
        if k == "set":
            ops.append(["set", names[i]])
        elif k == "loop":
            ops.append(["save"])
            ops.append(["set", names[i]])
            if w:
                ops.append(["write"])
            ops.append(["set", names[j]])
            ops.append(["restore"])
        else:
            ops.append([k])
    ops = ops[:30]
    return {"cfg": cfg, "dtype": draw(st.sampled_from(["float64", "complex128"])),
            "save": draw(st.sampled_from([True, True, True, False])), "start": start, "ops": ops,
            "schedule": draw(gen.schedules(12))}


def _rank_fn(ctx, case):
    from pygyro.model.grid import Grid
    cfg = case["cfg"]
    try:
        man = mg.build(ctx.comm, cfg)
    except mg.Refused as e:
        return ("refused", str(e))
    shape = cfg["shape"]
    dtype = ga.DTYPES[case["dtype"]]
    eta = mg.eta_grids(shape)
    grid = Grid(eta, [None] * len(shape), man, case["start"], ctx.comm, dtype=dtype,
                allocateSaveMemory=case["save"])
    pat = 0
    G = ga.global_array(shape, case["dtype"], pat)

    def blk(Garr, name):
        l = grid.getLayout(name)
        return ga.block(Garr, l.dims_order, l.starts, l.ends)

    grid.getAllData()[:] = blk(G, case["start"])
    m_layout = case["start"]
    m_saved = None          # (G, layout)

    def check(step, what):
        if grid.currentLayout != m_layout:
            raise Violation("C04:wrong-layout", "after step %d (%s) rank %d: currentLayout=%r, model=%r"
                            % (step, what, ctx.rank, grid.currentLayout, m_layout))
        want = blk(G, m_layout)
        got = grid.getAllData()
        if got.shape != want.shape or not ga.bits_equal(got, want):
            n = int((np.asarray(got) != want).sum()) if got.shape == want.shape else -1
            raise Violation("C04:wrong-data", "after step %d (%s) rank %d in layout %s: %d of %d elements differ "
                            "(shape %s vs %s)" % (step, what, ctx.rank, m_layout, n, want.size, got.shape, want.shape))

    check(-1, "init")
    for k, op in enumerate(case["ops"]):
        kind = op[0]
        has = bool(case["save"])
        legal = (kind in ("set", "write") or (kind == "save" and has and m_saved is None)
                 or (kind in ("restore", "free") and has and m_saved is not None))
        try:
            if kind == "set":
                grid.setLayout(op[1])
            elif kind == "write":
                pat += 1
                Gn = ga.global_array(shape, case["dtype"], pat)
                grid.getAllData()[:] = blk(Gn, m_layout)
            elif kind == "save":
                grid.saveGridValues()
            elif kind == "restore":
                grid.restoreGridValues()
            elif kind == "free":
                grid.freeGridSave()
            raised = None
        except Exception as e:  # noqa
            if legal:
                raise
            raised = e
        if not legal:
            if raised is None:
                raise Violation("C04:illegal-call-accepted", "step %d: %s accepted although %s (rank %d)"
                                % (k, kind, "nothing is saved" if kind != "save" else
                                   ("a save is held" if has else "the grid has no save memory"), ctx.rank))
        else:
            if kind == "set":
                m_layout = op[1]
            elif kind == "write":
                G = Gn
            elif kind == "save":
                m_saved = (G, m_layout)
            elif kind == "restore":
                G, m_layout = m_saved
                m_saved = None
            elif kind == "free":
                m_saved = None
        check(k, " ".join(str(x) for x in op) + ("" if legal else " [illegal]"))
    return ("ok", None)


def predicate(case):
    cfg = case["cfg"]
    P = mg.nranks_cfg(cfg)
    res, w = run_world(P, _rank_fn, (case,), schedule=case.get("schedule", ()), key="C04")
    kinds = {r[0] for r in res}
    if kinds == {"refused"}:
        return {"nontrivial": False, "labels": ["refused"], "evals": 1}
    if kinds != {"ok"}:
        raise Violation("C04:divergent-refusal", "some ranks refused the configuration, others accepted")
    # labels from the model
    saved = False
    since = 0
    loop = False
    illegal = 0
    for op in case["ops"]:
        k = op[0]
        has = bool(case["save"])
        if k == "save":
            if has and not saved:
                saved, since = True, 0
            else:
                illegal += 1
        elif k in ("set", "write"):
            if saved:
                since += 2 if k == "write" else 1
        elif k == "restore":
            if has and saved:
                if since >= 2:
                    loop = True
                saved = False
            else:
                illegal += 1
        elif k == "free":
            if has and saved:
                saved = False
            else:
                illegal += 1
    labels = ["P=%d" % P, cfg["kind"], "savemem" if case["save"] else "nosavemem"]
    if loop:
        labels.append("save-2moves-restore")
    if illegal:
        labels.append("has-illegal-call")
    return {"nontrivial": loop and P >= 2, "labels": labels, "evals": len(case["ops"])}


SUBS = {"exhaustive": Sub(predicate, enumerate=enum_cases, exhaustive=True),
        "random": Sub(predicate, strategy=cases)}


def jobs(tier):
    n = 150 if tier == "quick" else 9000
    return ([{"sub": "exhaustive", "shard": i, "nshards": 16} for i in range(16)] +
            [{"sub": "random", "n": n, "shard": i} for i in range(16)])


def coverage_extra(tier):
    L = MAXLEN[tier]
    return {"exhaustive_histories_per_configuration": sum(7 ** k for k in range(1, L + 1)),
            "exhaustive_max_length": L, "fixed_configurations": len(FIXED)}
