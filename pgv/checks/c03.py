"""
C03 -- Redistribution across differently distributed layout groups preserves data.
"""
import warnings

import numpy as np
from hypothesis import strategies as st

from .. import gen, managers as mg
from ..harness import Sub, Violation, run_world
from ..oracles import globalarr as ga

PROPERTY = "C03"
HANG_SECONDS = 60.0
LINE_BUDGET = 1000000000
RULE = ("Hypothesis-generated LayoutSwapper configurations (3-D/4-D, extents 2-8, 2-D process grids incl. "
        "p0==p1, p0!=p1 and extents of 1, a 2-D layout group plus 1-3 further groups on p0, p1, [p0,p1] or 1, "
        "any start layout, one dimension shorter than its process count in 1 case of 6) with histories (1-8 "
        "steps; source = previous destination, or the previous source again when a spare buffer left it intact, or a "
        "fresh array held in any layout; spare buffer or not) run on a simulated MPI world under a generated schedule; after every step every rank's block is "
        "compared bit-for-bit with the slice of the global array given by the destination layout's own ranges "
        "(hence replicas are identical), and ownership counts must equal the replication factor. "
        "Constructor refusals must be unanimous.  Non-trivial = history contains a gather and a scatter step "
        "on >=2 ranks with an uneven block or p0==p1; distinct = distinct case digest.")
ASSUMPTIONS = [
    "simulated MPI (pgv.simmpi); Allgather moves raw bytes exactly as mpi4py does for (buf, MPI.DOUBLE) specs",
    "configurations follow the documented LayoutSwapper usage (one 2-D group + groups on its sub-communicators)",
]


def init_worker(tier):
    warnings.simplefilter("ignore")


@st.composite
def cases(draw, tier):
    cfg = draw(mg.swapper_config(tier, allow_empty=True))
    names = [n for n, _ in mg.all_layouts(cfg)]
    nl = len(names)
    # every step: destination, spare buffer or not, and where the source comes from: "chain" (the previous
    # destination), "fork" (the previous source again, if a spare buffer left it intact) or a fresh array held in
    # any layout (a second field moved with the same swapper)
    steps = draw(st.lists(st.tuples(st.integers(0, nl - 1), st.booleans(),
                                    st.sampled_from(["chain", "chain", "chain", "fork", "fresh"]),
                                    st.integers(0, nl - 1)), min_size=1, max_size=8))
    steps = [[names[i], b] if how == "chain" else [names[i], b, how, names[j]] for i, b, how, j in steps]
    if draw(st.booleans()):
        steps.append([cfg["start"], draw(st.booleans())])
    return {"cfg": cfg, "dtype": draw(st.sampled_from(["float64", "complex128", "complex128", "int64"])),
            "steps": steps, "schedule": draw(gen.schedules(16))}


def moves(case):
    """(source layout, destination layout, spare buffer?, kind of source) of every step; a "fork" whose previous step
    had no spare buffer (source not intact) falls back to the chain."""
    out = []
    cur = case["cfg"]["start"]
    prev = None
    for st_ in case["steps"]:
        dn, usebuf = st_[0], st_[1]
        how = st_[2] if len(st_) > 2 else "chain"
        if how == "fork" and prev is None:
            how = "chain"
        sn = prev if how == "fork" else (st_[3] if how == "fresh" else cur)
        out.append((sn, dn, usebuf, how))
        prev = sn if usebuf else None
        cur = dn
    return out


def _rank_fn(ctx, case):
    cfg = case["cfg"]
    try:
        sw = mg.build(ctx.comm, cfg)
    except mg.Refused as e:
        return ("refused", str(e))
    dtype = ga.DTYPES[case["dtype"]]
    G = ga.global_array(cfg["shape"], case["dtype"])
    sent = ga.sentinel(case["dtype"])
    bs = int(sw.bufferSize)
    info = {}
    for n, _ in mg.all_layouts(cfg):
        l = sw.getLayout(n)
        info[n] = (tuple(int(x) for x in l.starts), tuple(int(x) for x in l.ends))
        if l.size > bs:
            raise Violation("C03:buffer-too-small", "bufferSize %d < size %d of layout %s" % (bs, l.size, n))
    def held_in(name):
        a = np.full(bs, sent, dtype=dtype)
        l = sw.getLayout(name)
        a[:l.size] = ga.block(G, l.dims_order, l.starts, l.ends).ravel()
        return a
    arrays = {"cur": (held_in(cfg["start"]), cfg["start"]), "prev": None}
    for k, (sn, dn, usebuf, how) in enumerate(moves(case)):
        if how == "fork":
            src = arrays["prev"][0]
        elif how == "fresh":
            src = held_in(sn)
        else:
            src = arrays["cur"][0]
        dst = np.full(bs, sent, dtype=dtype)
        ls = sw.getLayout(sn)
        ld = sw.getLayout(dn)
        before = src[:ls.size].copy()
        buf = np.full(bs, sent, dtype=dtype) if usebuf else None
        sw.transpose(src, dst, sn, dn, buf)
        want = ga.block(G, ld.dims_order, ld.starts, ld.ends)
        got = dst[:ld.size].reshape(ld.shape)
        if not ga.bits_equal(got, want):
            bad = np.argwhere(got != want)
            raise Violation("C03:wrong-data",
                            "step %d %s->%s (%s source) buf=%s rank %d: %d of %d elements differ (first at %s)"
                            % (k, sn, dn, how, usebuf, ctx.rank, len(bad), want.size,
                               bad[0].tolist() if len(bad) else None))
        if usebuf and not ga.bits_equal(src[:ls.size], before):
            raise Violation("C03:source-modified", "step %d %s->%s with spare buffer changed the source block on rank %d"
                            % (k, sn, dn, ctx.rank))
        arrays["prev"] = (src, sn) if usebuf else None
        arrays["cur"] = (dst, dn)
    return ("ok", info)


def predicate(case):
    cfg = case["cfg"]
    P = mg.nranks_cfg(cfg)
    res, w = run_world(P, _rank_fn, (case,), schedule=case.get("schedule", ()), key="C03")
    kinds = {r[0] for r in res}
    if kinds == {"refused"}:
        msgs = {r[1].split(":")[0] for r in res}
        return {"nontrivial": False, "labels": ["refused:" + "/".join(sorted(msgs))], "evals": 1}
    if kinds != {"ok"}:
        raise Violation("C03:divergent-refusal", "some ranks refused the configuration, others accepted: %s"
                        % [r[0] for r in res])
    shape = cfg["shape"]
    for n, perm in mg.all_layouts(cfg):
        full = tuple(shape[d] for d in perm)
        ok, m = ga.check_tiling(full, [(r[1][n][0], r[1][n][1]) for r in res])
        want = P // int(np.prod(mg.group_nprocs(cfg, mg.group_of(cfg, n))))
        if not ok or m != want:
            raise Violation("C03:blocks-do-not-tile", "layout %s: %s (expected every index owned by %d ranks)"
                            % (n, m, want))
    # labels
    nd = [len([p for p in mg.group_nprocs(cfg, k) if p > 1]) for k in range(len(cfg["groups"]))]
    gather = scatter = False
    kinds_seen = set()
    for sn, dn, _, how in moves(case):
        a, b = nd[mg.group_of(cfg, sn)], nd[mg.group_of(cfg, dn)]
        if b < a:
            gather = True
        if b > a:
            scatter = True
        kinds_seen.add(how)
    g0 = next(g for g in cfg["groups"] if not isinstance(g["nprocs"], int) and len(g["nprocs"]) == 2)
    p0, p1 = g0["nprocs"]
    labels = ["P=%d" % P] + sorted("source:" + k for k in kinds_seen)
    if gather:
        labels.append("gather")
    if scatter:
        labels.append("scatter")
    if p0 == p1 and p0 > 1:
        labels.append("p0==p1")
    if 1 in (p0, p1):
        labels.append("grid-has-1")
    un = mg.uneven(cfg)
    if un:
        labels.append("uneven")
    nontriv = gather and scatter and P >= 2 and (un or (p0 == p1 and p0 > 1))
    return {"nontrivial": nontriv, "labels": labels, "evals": len(case["steps"])}


SUBS = {"history": Sub(predicate, strategy=cases)}


def jobs(tier):
    n = 400 if tier == "quick" else 14000
    return [{"sub": "history", "n": n, "shard": i, "nshards": 16} for i in range(16)]
