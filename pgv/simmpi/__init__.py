"""simmpi -- simulated mpi4py.  install() registers it as `mpi4py` in sys.modules."""
import sys
import types

from . import core
from .core import (World, WorldAbort, SimMPIError, CollectiveMismatch, Deadlock, RankFailure,
                   enumerate_schedules, current_comm, current_ctx)

_PUBLIC = ["COMM_WORLD", "COMM_SELF", "COMM_NULL", "Comm", "Intracomm", "Cartcomm", "Op", "Datatype",
           "SUM", "PROD", "MIN", "MAX", "LAND", "LOR", "DOUBLE", "FLOAT", "INT", "LONG", "INT64_T",
           "C_DOUBLE_COMPLEX", "DOUBLE_COMPLEX", "BYTE", "BOOL", "UNDEFINED", "ANY_SOURCE", "ANY_TAG",
           "Wtime"]


def make_modules():
    mpi = types.ModuleType("mpi4py.MPI")
    for name in _PUBLIC:
        setattr(mpi, name, getattr(core, name))
    mpi.__simmpi__ = True
    pkg = types.ModuleType("mpi4py")
    pkg.MPI = mpi
    pkg.__path__ = []
    pkg.__simmpi__ = True
    pkg.get_include = lambda: ""
    return pkg, mpi


def install():
    """Make `from mpi4py import MPI` resolve to the simulated MPI (idempotent)."""
    cur = sys.modules.get("mpi4py")
    if cur is not None and getattr(cur, "__simmpi__", False):
        return sys.modules["mpi4py.MPI"]
    pkg, mpi = make_modules()
    sys.modules["mpi4py"] = pkg
    sys.modules["mpi4py.MPI"] = mpi
    return mpi
