"""
simmpi.core -- a simulated mpi4py.MPI owned by the harness (DESIGN.md section 2.1).

P ranks run unmodified pygyro code as threads of one interpreter.  Exactly one
thread (a rank or the scheduler) runs at a time (baton passing through
semaphores); ranks give the baton back only inside collectives.  Which runnable
rank runs next is read from a *schedule* (list of small ints), so a run is a
pure function of (code, case, schedule).

Strict matcher: the k-th collective call of every member of a communicator must
be the same operation with the same root and MPI-compatible counts/datatypes,
otherwise CollectiveMismatch.  Deadlock = no runnable rank while some rank has
not finished.
"""
import pickle
import random
import threading
import traceback

import numpy as np

_tls = threading.local()


# ----------------------------------------------------------------------------
# errors
# ----------------------------------------------------------------------------
class WorldAbort(BaseException):
    """Raised inside a blocked rank thread to unwind it when the world aborts."""


class SimMPIError(Exception):
    """Base class of world-level verdicts."""


class CollectiveMismatch(SimMPIError):
    pass


class Deadlock(SimMPIError):
    def __init__(self, msg, pending=None, finished=None, failed=None):
        super().__init__(msg)
        self.pending = pending or {}
        self.finished = finished or []
        self.failed = failed or {}


class RankFailure(SimMPIError):
    """At least one rank raised an ordinary exception."""

    def __init__(self, msg, excs, blocked, finished):
        super().__init__(msg)
        self.excs = excs          # rank -> exception
        self.blocked = blocked    # rank -> description of pending collective
        self.finished = finished  # ranks that returned normally

    def unanimous(self, exc_type=None):
        """All ranks raised (nobody blocked / finished), optionally of one type."""
        if self.blocked or self.finished:
            return False
        if exc_type is None:
            types = {type(e) for e in self.excs.values()}
            return len(types) == 1
        return all(isinstance(e, exc_type) for e in self.excs.values())


# ----------------------------------------------------------------------------
# MPI constants
# ----------------------------------------------------------------------------
class Op:
    def __init__(self, name, pyfn, npfn):
        self.name = name
        self.pyfn = pyfn
        self.npfn = npfn

    def __repr__(self):
        return "MPI." + self.name


def _land(a, b):
    return bool(a) and bool(b)


def _lor(a, b):
    return bool(a) or bool(b)


SUM = Op("SUM", lambda a, b: a + b, np.add)
PROD = Op("PROD", lambda a, b: a * b, np.multiply)
MIN = Op("MIN", lambda a, b: b if b < a else a, np.minimum)
MAX = Op("MAX", lambda a, b: b if b > a else a, np.maximum)
LAND = Op("LAND", _land, np.logical_and)
LOR = Op("LOR", _lor, np.logical_or)


class Datatype:
    def __init__(self, name, npdtype):
        self.name = name
        self.dtype = np.dtype(npdtype)
        self.size = self.dtype.itemsize

    def Get_size(self):
        return self.size

    def __repr__(self):
        return "MPI." + self.name


DOUBLE = Datatype("DOUBLE", np.float64)
FLOAT = Datatype("FLOAT", np.float32)
INT = Datatype("INT", np.int32)
LONG = Datatype("LONG", np.int64)
INT64_T = Datatype("INT64_T", np.int64)
C_DOUBLE_COMPLEX = Datatype("C_DOUBLE_COMPLEX", np.complex128)
DOUBLE_COMPLEX = C_DOUBLE_COMPLEX
BYTE = Datatype("BYTE", np.uint8)
BOOL = Datatype("BOOL", np.bool_)

_AUTO_TYPES = {
    np.dtype(np.float64): DOUBLE, np.dtype(np.float32): FLOAT,
    np.dtype(np.int32): INT, np.dtype(np.int64): LONG,
    np.dtype(np.complex128): C_DOUBLE_COMPLEX, np.dtype(np.uint8): BYTE,
    np.dtype(np.bool_): BOOL,
}

COMM_NULL = None
UNDEFINED = -32766
ANY_SOURCE = -1
ANY_TAG = -1


# ----------------------------------------------------------------------------
# buffer specifications (mpi4py rules)
# ----------------------------------------------------------------------------
class _Buf:
    __slots__ = ("arr", "dt", "count", "counts", "displs")


def _parse_buf(spec, vector=False, writable=False):
    """Return a _Buf for an mpi4py buffer specification."""
    b = _Buf()
    b.counts = b.displs = None
    count = None
    dt = None
    if isinstance(spec, (tuple, list)):
        items = list(spec)
        arr = items[0]
        rest = items[1:]
        if rest and isinstance(rest[-1], Datatype):
            dt = rest.pop()
        if vector:
            if len(rest) >= 1 and rest[0] is not None:
                b.counts = [int(c) for c in np.atleast_1d(rest[0])]
            if len(rest) >= 2 and rest[1] is not None:
                b.displs = [int(c) for c in np.atleast_1d(rest[1])]
        else:
            if len(rest) >= 1 and rest[0] is not None:
                count = int(rest[0])
    else:
        arr = spec
    if not isinstance(arr, np.ndarray):
        raise TypeError("simmpi: message buffer must be a numpy array, got %r" % type(arr))
    if not arr.flags['C_CONTIGUOUS']:
        raise ValueError("ndarray is not contiguous")
    if writable and not arr.flags['WRITEABLE']:
        raise ValueError("buffer is read-only")
    if dt is None:
        dt = _AUTO_TYPES.get(arr.dtype)
        if dt is None:
            raise TypeError("simmpi: cannot map dtype %s to an MPI datatype" % arr.dtype)
    if count is None:
        if arr.nbytes % dt.size != 0:
            raise ValueError("message: buffer length %d is not a multiple of datatype extent %d"
                             % (arr.nbytes, dt.size))
        count = arr.nbytes // dt.size
    elif count * dt.size > arr.nbytes:
        raise ValueError("message: count %d exceeds buffer" % count)
    b.arr = arr
    b.dt = dt
    b.count = count
    return b


def _bytes_of(arr):
    """uint8 view of a C-contiguous array's memory."""
    return arr.reshape(-1).view(np.uint8)


# ----------------------------------------------------------------------------
# world / scheduler
# ----------------------------------------------------------------------------
READY, BLOCKED, DONE, FAILED, ABORTED = "ready", "blocked", "done", "failed", "aborted"


class RankCtx:
    """Per-rank context handed to the SPMD function."""

    def __init__(self, world, rank):
        self.world = world
        self.rank = rank
        self.size = world.size
        self.comm = None          # world communicator handle of this rank
        self.state = {}           # persistent between World.run calls
        self.trace = []           # (gid, seq, op, root, signature)
        self._st = DONE
        self._sem = threading.Semaphore(0)
        self._wait = None
        self._pending = None
        self._exc = None
        self._tb = None
        self._result = None


class _Instance:
    __slots__ = ("desc", "arrived", "left", "shared")

    def __init__(self):
        self.desc = None
        self.arrived = {}
        self.left = set()
        self.shared = {}


class _Group:
    def __init__(self, world, members, label):
        self.world = world
        self.members = list(members)
        self.n = len(self.members)
        self.label = label
        self.id = world._new_gid() if world is not None else 0
        self.seq = [0] * self.n
        self.instances = {}


class World:
    """
    World(P, schedule=(), eager=False, reduce_seed=0)

    run(fn, *args) executes fn(ctx, *args) on every rank and returns the list of
    results.  The world persists between run() calls (communicators, ctx.state).
    """

    def __init__(self, size, schedule=(), eager=False, reduce_seed=0, fallback="rr"):
        self.size = int(size)
        self.fallback = fallback
        self.schedule = list(schedule)
        self.eager = bool(eager)
        self._rng = random.Random(int(reduce_seed))
        self._gid = 0
        self._main_sem = threading.Semaphore(0)
        self.aborting = False
        self.broken = False
        self.decisions = []       # (choice, number of options) for every real choice
        self._sched_pos = 0
        self._rr = 0
        self.ctxs = [RankCtx(self, r) for r in range(self.size)]
        g = _Group(self, range(self.size), "world")
        self.groups = [g]
        for r, c in enumerate(self.ctxs):
            c.comm = Intracomm(g, r)
        self.n_collectives = 0

    # -- helpers --------------------------------------------------------
    def _new_gid(self):
        self._gid += 1
        return self._gid

    def _new_group(self, members, label):
        g = _Group(self, members, label)
        self.groups.append(g)
        return g

    def perm(self, n):
        p = list(range(n))
        self._rng.shuffle(p)
        return p

    # -- called from rank threads --------------------------------------
    def _yield(self, ctx, wait, pending):
        """Give the baton back; resume when the scheduler picks this rank again."""
        ctx._wait = wait
        ctx._pending = pending
        ctx._st = BLOCKED if wait is not None else READY
        self._main_sem.release()
        ctx._sem.acquire()
        if self.aborting:
            raise WorldAbort()
        ctx._st = READY
        ctx._wait = None

    # -- scheduler -----------------------------------------------------
    def _pick(self, runnable):
        k = len(runnable)
        if k == 1:
            return runnable[0]
        if self._sched_pos < len(self.schedule):
            c = int(self.schedule[self._sched_pos]) % k
            self._sched_pos += 1
        elif self.fallback == "first":
            c = 0
        else:
            c = self._rr % k
            self._rr += 1
        self.decisions.append((c, k))
        return runnable[c]

    def run(self, fn, *args):
        if self.broken:
            raise SimMPIError("world is broken by an earlier failure")
        if getattr(_tls, "ctx", None) is not None:
            raise SimMPIError("World.run called from inside a rank")
        threads = []
        for ctx in self.ctxs:
            ctx._st = READY
            ctx._wait = None
            ctx._exc = None
            ctx._result = None
            t = threading.Thread(target=self._thread_main, args=(ctx, fn, args), daemon=True)
            threads.append(t)
            t.start()
        verdict = None
        while True:
            runnable = [c for c in self.ctxs
                        if c._st == READY or (c._st == BLOCKED and c._wait())]
            if not runnable:
                break
            ctx = self._pick(runnable)
            ctx._sem.release()
            self._main_sem.acquire()
        unfinished = [c for c in self.ctxs if c._st == BLOCKED]
        failed = {c.rank: c._exc for c in self.ctxs if c._st == FAILED}
        finished = [c.rank for c in self.ctxs if c._st == DONE]
        pending = {c.rank: c._pending for c in unfinished}
        if unfinished:
            self.aborting = True
            self.broken = True
            for c in unfinished:
                c._sem.release()
                self._main_sem.acquire()
        for t in threads:
            t.join()
        # a mismatch is reported as such, whatever else happened
        for c in self.ctxs:
            if isinstance(c._exc, CollectiveMismatch):
                self.broken = True
                raise c._exc
        if failed:
            if pending:
                self.broken = True
            msg = "ranks %s raised: %s" % (sorted(failed), "; ".join(
                "%d: %s: %s" % (r, type(e).__name__, e) for r, e in sorted(failed.items())))
            if pending:
                msg += " | while ranks %s were blocked in %s" % (
                    sorted(pending), {r: p for r, p in sorted(pending.items())})
            err = RankFailure(msg, failed, pending, finished)
            err.tracebacks = {c.rank: c._tb for c in self.ctxs if c._st == FAILED}
            raise err
        if pending:
            raise Deadlock("deadlock: ranks %s blocked in %s; ranks %s finished"
                           % (sorted(pending), {r: p for r, p in sorted(pending.items())},
                              finished), pending, finished)
        # all finished: no collective may be left half-done
        for g in self.groups:
            if g.instances:
                self.broken = True
                seq, inst = sorted(g.instances.items())[0]
                raise CollectiveMismatch(
                    "unmatched collective on %s: call #%d %s was issued only by members %s"
                    % (g.label, seq, inst.desc, sorted(inst.arrived)))
            if len(set(g.seq)) > 1:
                self.broken = True
                raise CollectiveMismatch(
                    "members of %s issued different numbers of collectives: %s" % (g.label, g.seq))
        return [c._result for c in self.ctxs]

    def _thread_main(self, ctx, fn, args):
        _tls.ctx = ctx
        ctx._sem.acquire()
        try:
            if self.aborting:
                raise WorldAbort()
            ctx._result = fn(ctx, *args)
            ctx._st = DONE
        except WorldAbort:
            ctx._st = ABORTED
        except BaseException as e:   # noqa
            ctx._exc = e
            ctx._tb = traceback.format_exc()
            ctx._st = FAILED
        finally:
            _tls.ctx = None
            self._main_sem.release()

    def traces(self):
        return [list(c.trace) for c in self.ctxs]


# ----------------------------------------------------------------------------
# communicators
# ----------------------------------------------------------------------------
def _match_error(group, seq, opname, mine, first, what):
    return CollectiveMismatch(
        "collective mismatch on %s call #%d: %s -- this rank: %s %s, first arrival: %s %s"
        % (group.label, seq, what, opname, mine, first[0], first[1:]))


class Comm:
    """Base class (isinstance target for `MPI.Comm` annotations)."""

    def __init__(self, group, idx):
        self._g = group
        self._i = idx

    # -- basic queries -------------------------------------------------
    def Get_rank(self):
        return self._i

    def Get_size(self):
        return self._g.n

    rank = property(Get_rank)
    size = property(Get_size)

    def Free(self):
        pass

    def Abort(self, errorcode=0):
        raise SimMPIError("MPI_Abort(%s) called" % errorcode)

    def __repr__(self):
        return "<simmpi comm %s rank %d/%d>" % (self._g.label, self._i, self._g.n)

    # -- the collective engine ----------------------------------------
    def _collective(self, opname, root, sig, payload, ready, finish, sigcheck=None):
        """
        opname/root : must agree between members (strict matcher)
        sig         : op-specific signature, compared by sigcheck(mine, first)
        payload     : what this member contributes (copied data)
        ready(inst, n, eager) -> bool : may this member leave?
        finish(inst) -> return value  : executed when leaving
        """
        g = self._g
        i = self._i
        w = g.world
        ctx = getattr(_tls, "ctx", None)
        seq = g.seq[i]
        g.seq[i] += 1
        inst = g.instances.get(seq)
        if inst is None:
            inst = g.instances[seq] = _Instance()
        if ctx is not None:
            ctx.trace.append((g.id, seq, opname, root, sig))
            w.n_collectives += 1
        if inst.desc is None:
            inst.desc = (opname, root, sig)
        else:
            fo, fr, fs = inst.desc
            if fo != opname:
                raise _match_error(g, seq, opname, (root, sig), inst.desc, "different operations")
            if fr != root:
                raise _match_error(g, seq, opname, (root, sig), inst.desc, "different roots")
            if sigcheck is not None:
                why = sigcheck(sig, fs)
                if why:
                    raise _match_error(g, seq, opname, (root, sig), inst.desc, why)
        if root is not None and not (0 <= root < g.n):
            raise ValueError("invalid root %r" % (root,))
        inst.arrived[i] = payload
        eager = w.eager if w is not None else False
        if g.n > 1:
            if ctx is None:
                raise SimMPIError("collective on a multi-rank communicator outside a World")
            pend = "%s(root=%s) on %s call #%d" % (opname, root, g.label, seq)
            if not ready(inst, g.n, eager):
                w._yield(ctx, lambda: ready(inst, g.n, eager), pend)
            else:
                # let the scheduler reorder who proceeds first
                w._yield(ctx, None, pend)
        res = finish(inst)
        inst.left.add(i)
        if len(inst.left) == g.n:
            del g.instances[seq]
        return res

    @staticmethod
    def _all(inst, n, eager):
        return len(inst.arrived) == n

    # -- object collectives ---------------------------------------------
    def Barrier(self):
        self._collective("Barrier", None, None, None, self._all, lambda inst: None)

    barrier = Barrier

    def bcast(self, obj=None, root=0):
        i = self._i

        def ready(inst, n, eager):
            if eager:
                return root in inst.arrived
            return len(inst.arrived) == n

        def finish(inst):
            if i == root:
                return obj
            return pickle.loads(inst.arrived[root])
        payload = pickle.dumps(obj) if i == root else None
        return self._collective("bcast", root, None, payload, ready, finish)

    def _rooted_ready(self, root):
        i = self._i

        def ready(inst, n, eager):
            if eager and i != root:
                return True
            return len(inst.arrived) == n
        return ready

    def gather(self, sendobj, root=0):
        i = self._i
        n = self._g.n

        def finish(inst):
            if i != root:
                return None
            return [pickle.loads(inst.arrived[k]) for k in range(n)]
        return self._collective("gather", root, None, pickle.dumps(sendobj),
                                self._rooted_ready(root), finish)

    def allgather(self, sendobj):
        n = self._g.n

        def finish(inst):
            return [pickle.loads(inst.arrived[k]) for k in range(n)]
        return self._collective("allgather", None, None, pickle.dumps(sendobj), self._all, finish)

    def _fold(self, inst, op, n, conv):
        w = self._g.world
        order = inst.shared.get("order")
        if order is None:
            order = w.perm(n) if w is not None else list(range(n))
            inst.shared["order"] = order
        acc = conv(inst.arrived[order[0]])
        for k in order[1:]:
            acc = op(acc, conv(inst.arrived[k]))
        return acc

    def reduce(self, sendobj, op=SUM, root=0):
        i = self._i
        n = self._g.n

        def finish(inst):
            if i != root:
                return None
            return self._fold(inst, op.pyfn, n, pickle.loads)

        def chk(a, b):
            return None if a == b else "different reduction operations"
        return self._collective("reduce", root, op.name, pickle.dumps(sendobj),
                                self._rooted_ready(root), finish, chk)

    def allreduce(self, sendobj, op=SUM):
        n = self._g.n

        def finish(inst):
            if "res" not in inst.shared:
                inst.shared["res"] = pickle.dumps(self._fold(inst, op.pyfn, n, pickle.loads))
            return pickle.loads(inst.shared["res"])

        def chk(a, b):
            return None if a == b else "different reduction operations"
        return self._collective("allreduce", None, op.name, pickle.dumps(sendobj),
                                self._all, finish, chk)

    # -- buffer collectives ----------------------------------------------
    def Bcast(self, buf, root=0):
        i = self._i
        b = _parse_buf(buf, writable=(i != root))
        sig = (b.count * b.dt.size,)

        def ready(inst, n, eager):
            if eager:
                return root in inst.arrived
            return len(inst.arrived) == n

        def finish(inst):
            if i != root:
                data = inst.arrived[root]
                _bytes_of(b.arr)[:len(data)] = data
            return None

        def chk(a, f):
            return None if a == f else "different message sizes"
        payload = _bytes_of(b.arr)[:b.count * b.dt.size].copy() if i == root else None
        return self._collective("Bcast", root, sig, payload, ready, finish, chk)

    def Reduce(self, sendbuf, recvbuf, op=SUM, root=0):
        i = self._i
        n = self._g.n
        s = _parse_buf(sendbuf)
        sig = (op.name, s.dt.name, s.count)
        if i == root:
            r = _parse_buf(recvbuf, writable=True)
            if r.count != s.count or r.dt.size != s.dt.size:
                raise ValueError("Reduce: receive buffer count/type %s/%s differs from send %s/%s"
                                 % (r.count, r.dt.name, s.count, s.dt.name))

        def finish(inst):
            if i != root:
                return None
            res = self._fold(inst, op.npfn, n, lambda raw: raw.view(s.dt.dtype))
            out = _bytes_of(r.arr)
            raw = np.ascontiguousarray(res.astype(s.dt.dtype, copy=False)).view(np.uint8)
            out[:raw.size] = raw
            return None

        def chk(a, f):
            return None if a == f else "different op/datatype/count"
        payload = _bytes_of(s.arr)[:s.count * s.dt.size].copy()
        return self._collective("Reduce", root, sig, payload,
                                self._rooted_ready(root), finish, chk)

    def Allreduce(self, sendbuf, recvbuf, op=SUM):
        n = self._g.n
        s = _parse_buf(sendbuf)
        r = _parse_buf(recvbuf, writable=True)
        sig = (op.name, s.dt.name, s.count)
        if r.count != s.count:
            raise ValueError("Allreduce: count mismatch")

        def finish(inst):
            if "res" not in inst.shared:
                res = self._fold(inst, op.npfn, n, lambda raw: raw.view(s.dt.dtype))
                inst.shared["res"] = np.ascontiguousarray(
                    res.astype(s.dt.dtype, copy=False)).view(np.uint8).copy()
            raw = inst.shared["res"]
            _bytes_of(r.arr)[:raw.size] = raw

        def chk(a, f):
            return None if a == f else "different op/datatype/count"
        payload = _bytes_of(s.arr)[:s.count * s.dt.size].copy()
        return self._collective("Allreduce", None, sig, payload, self._all, finish, chk)

    def Alltoall(self, sendbuf, recvbuf):
        i = self._i
        n = self._g.n
        s = _parse_buf(sendbuf)
        r = _parse_buf(recvbuf, writable=True)
        if s.count % n != 0:
            raise ValueError("Alltoall: send count %d is not a multiple of comm size %d" % (s.count, n))
        if r.count % n != 0:
            raise ValueError("Alltoall: recv count %d is not a multiple of comm size %d" % (r.count, n))
        sb = (s.count // n) * s.dt.size
        rb = (r.count // n) * r.dt.size
        sig = (s.dt.name, sb, r.dt.name, rb)

        def chk(a, f):
            if a[1] != f[3] or a[3] != f[1] or a[1] != a[3]:
                return "per-peer byte counts differ (send %d recv %d vs send %d recv %d)" % (
                    a[1], a[3], f[1], f[3])
            if a[0] != f[2] or a[2] != f[0]:
                return "datatypes differ"
            return None
        if sb != rb:
            raise CollectiveMismatch("Alltoall on %s: own send block %d bytes != own recv block %d bytes"
                                     % (self._g.label, sb, rb))

        def finish(inst):
            out = _bytes_of(r.arr)
            for k in range(n):
                out[k * rb:(k + 1) * rb] = inst.arrived[k][i * sb:(i + 1) * sb]
        payload = _bytes_of(s.arr)[:s.count * s.dt.size].copy()
        return self._collective("Alltoall", None, sig, payload, self._all, finish, chk)

    def Allgather(self, sendbuf, recvbuf):
        n = self._g.n
        s = _parse_buf(sendbuf)
        r = _parse_buf(recvbuf, writable=True)
        sb = s.count * s.dt.size
        if r.count * r.dt.size != n * sb:
            raise CollectiveMismatch(
                "Allgather on %s: recv %d bytes != size %d x send %d bytes"
                % (self._g.label, r.count * r.dt.size, n, sb))
        sig = (s.dt.name, sb)

        def chk(a, f):
            return None if a == f else "contribution sizes/datatypes differ"

        def finish(inst):
            out = _bytes_of(r.arr)
            for k in range(n):
                out[k * sb:(k + 1) * sb] = inst.arrived[k]
        payload = _bytes_of(s.arr)[:sb].copy()
        return self._collective("Allgather", None, sig, payload, self._all, finish, chk)

    def Gatherv(self, sendbuf, recvbuf, root=0):
        i = self._i
        n = self._g.n
        s = _parse_buf(sendbuf)
        sb = s.count * s.dt.size
        if i == root:
            r = _parse_buf(recvbuf, vector=True, writable=True)
            if r.counts is None:
                raise ValueError("Gatherv: root must give receive counts")
            counts = r.counts
            if len(counts) != n:
                raise ValueError("Gatherv: %d receive counts for %d ranks" % (len(counts), n))
            displs = r.displs
            if displs is None:
                displs = [int(x) for x in np.concatenate([[0], np.cumsum(counts)[:-1]])]
            if len(displs) != n:
                raise ValueError("Gatherv: %d displacements for %d ranks" % (len(displs), n))
            total = r.arr.nbytes // r.dt.size
            for c, d in zip(counts, displs):
                if c < 0 or d < 0 or d + c > total:
                    raise CollectiveMismatch(
                        "Gatherv on %s: block (displ %d, count %d) outside receive buffer of %d"
                        % (self._g.label, d, c, total))
            iv = sorted((d, d + c) for c, d in zip(counts, displs) if c > 0)
            for (a0, a1), (b0, b1) in zip(iv, iv[1:]):
                if b0 < a1:
                    raise CollectiveMismatch("Gatherv on %s: overlapping receive blocks" % self._g.label)
        sig = (s.dt.name, sb)

        def finish(inst):
            if i != root:
                return None
            out = _bytes_of(r.arr)
            es = r.dt.size
            for k in range(n):
                data = inst.arrived[k]
                if data.size != counts[k] * es:
                    raise CollectiveMismatch(
                        "Gatherv on %s: root expects %d bytes from rank %d which sends %d"
                        % (self._g.label, counts[k] * es, k, data.size))
                out[displs[k] * es:displs[k] * es + data.size] = data
            return None
        payload = _bytes_of(s.arr)[:sb].copy()
        return self._collective("Gatherv", root, sig, payload,
                                self._rooted_ready(root), finish, None)

    # -- generic "do once" collective used by simh5 -----------------------
    def sim_collective(self, opname, key, once):
        """All members must call with equal key; once() runs exactly once, all get its result."""
        def finish(inst):
            if "res" not in inst.shared:
                inst.shared["res"] = once()
            return inst.shared["res"]

        def chk(a, f):
            return None if a == f else "arguments differ between ranks"
        return self._collective(opname, None, key, None, self._all, finish, chk)

    # -- communicator construction ----------------------------------------
    def Create_cart(self, dims, periods=None, reorder=False):
        dims = [int(d) for d in np.atleast_1d(dims)]
        n = self._g.n
        i = self._i
        tot = int(np.prod(dims)) if dims else 1
        if tot > n or any(d <= 0 for d in dims):
            raise ValueError("Create_cart: grid %s does not fit communicator of size %d" % (dims, n))
        g = self._g

        def finish(inst):
            if "grp" not in inst.shared:
                inst.shared["grp"] = g.world._new_group(
                    [g.members[k] for k in range(tot)], "cart%s" % (tuple(dims),)) \
                    if g.world is not None else _Group(None, [0], "cart")
            if i >= tot:
                return COMM_NULL
            return Cartcomm(inst.shared["grp"], i, dims)

        def chk(a, f):
            return None if a == f else "different dims"
        return self._collective("Create_cart", None, tuple(dims), None, self._all, finish, chk)

    def Split(self, color=0, key=0):
        i = self._i
        n = self._g.n
        g = self._g
        color = int(color)
        key = int(key)

        def finish(inst):
            if "grps" not in inst.shared:
                by = {}
                for k in range(n):
                    c, ky = inst.arrived[k]
                    if c == UNDEFINED:
                        continue
                    by.setdefault(c, []).append((ky, k))
                grps = {}
                for c, lst in by.items():
                    lst.sort()
                    mem = [k for _, k in lst]
                    if g.world is not None:
                        grp = g.world._new_group([g.members[k] for k in mem],
                                                 "split(%s,color=%d)" % (g.label, c))
                    else:
                        grp = _Group(None, [0], "split")
                    grps[c] = (grp, mem)
                inst.shared["grps"] = grps
            if color == UNDEFINED:
                return COMM_NULL
            grp, mem = inst.shared["grps"][color]
            return Intracomm(grp, mem.index(i))
        return self._collective("Split", None, None, (color, key), self._all, finish)

    def Dup(self):
        g = self._g
        i = self._i

        def finish(inst):
            if "grp" not in inst.shared:
                inst.shared["grp"] = g.world._new_group(g.members, "dup(%s)" % g.label) \
                    if g.world is not None else _Group(None, [0], "dup")
            return Intracomm(inst.shared["grp"], i)
        return self._collective("Dup", None, None, None, self._all, finish)


class Intracomm(Comm):
    pass


class Cartcomm(Intracomm):
    def __init__(self, group, idx, dims):
        super().__init__(group, idx)
        self._dims = list(dims)

    @property
    def dims(self):
        return list(self._dims)

    def Get_dim(self):
        return len(self._dims)

    def Get_coords(self, rank):
        coords = []
        r = int(rank)
        for d in reversed(self._dims):
            coords.append(r % d)
            r //= d
        return list(reversed(coords))

    def Get_cart_rank(self, coords):
        r = 0
        for c, d in zip(coords, self._dims):
            r = r * d + int(c)
        return r

    @property
    def coords(self):
        return self.Get_coords(self._i)

    def Sub(self, remain_dims):
        remain = [bool(x) for x in remain_dims]
        if len(remain) != len(self._dims):
            raise ValueError("Sub: remain_dims has wrong length")
        g = self._g
        i = self._i
        dims = self._dims
        my = self.Get_coords(i)
        fixed = tuple(c for c, keep in zip(my, remain) if not keep)
        newdims = [d for d, keep in zip(dims, remain) if keep]

        def finish(inst):
            grps = inst.shared.setdefault("grps", {})
            if fixed not in grps:
                mem = [k for k in range(g.n)
                       if tuple(c for c, keep in zip(self.Get_coords(k), remain) if not keep) == fixed]
                if g.world is not None:
                    grp = g.world._new_group([g.members[k] for k in mem],
                                             "sub(%s,remain=%s,fixed=%s)" % (
                                                 g.label, tuple(int(x) for x in remain), fixed))
                else:
                    grp = _Group(None, [0], "sub")
                grps[fixed] = (grp, mem)
            grp, mem = grps[fixed]
            return Cartcomm(grp, mem.index(i), newdims)

        def chk(a, f):
            return None if a == f else "different remain_dims"
        return self._collective("Sub", None, tuple(remain), None, self._all, finish, chk)


# ----------------------------------------------------------------------------
# COMM_WORLD proxy
# ----------------------------------------------------------------------------
_SELF_GROUP = _Group(None, [0], "self")
_SELF = Intracomm(_SELF_GROUP, 0)


def current_comm():
    ctx = getattr(_tls, "ctx", None)
    if ctx is not None:
        return ctx.comm
    return _SELF


def current_ctx():
    return getattr(_tls, "ctx", None)


class _WorldProxy(Comm):
    """MPI.COMM_WORLD: resolves to the calling rank-thread's world communicator."""

    def __init__(self):
        pass

    def __getattribute__(self, name):
        if name in ("__class__", "__repr__", "__init__"):
            return object.__getattribute__(self, name)
        return getattr(current_comm(), name)

    def __repr__(self):
        return "<simmpi COMM_WORLD proxy>"


COMM_WORLD = _WorldProxy()
COMM_SELF = _SELF


def Wtime():
    return 0.0


# ----------------------------------------------------------------------------
# schedule enumeration (stateless DFS over scheduler choices)
# ----------------------------------------------------------------------------
def enumerate_schedules(run_with_schedule, budget):
    """
    run_with_schedule(schedule) -> decisions [(choice, nopts), ...] actually taken.
    Walks the tree of scheduler choices depth-first.  Returns (n_runs, exhausted).
    """
    sched = []
    runs = 0
    while True:
        decisions = run_with_schedule(list(sched))
        runs += 1
        # next schedule in DFS order: bump the last decision that has room
        dec = list(decisions)
        while dec and dec[-1][0] + 1 >= dec[-1][1]:
            dec.pop()
        if not dec:
            return runs, True
        if runs >= budget:
            return runs, False
        sched = [c for c, _ in dec[:-1]] + [dec[-1][0] + 1]
