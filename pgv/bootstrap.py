"""
bootstrap -- environment pinning, repository path, dependency check.

    /venv/bin/python -m pgv.bootstrap --setup

verifies (or installs offline into /verif/.deps) hypothesis, byte-compiles pgv and runs
the simmpi self tests.
"""
import os
import subprocess
import sys

VERIF = os.path.dirname(os.path.dirname(os.path.abspath(__file__)))
REPO = os.path.abspath(os.environ.get("VERIF_REPO", "/repo"))
DEPS = os.path.join(VERIF, ".deps")
WHEELS = "/opt/veriftools/wheels"
PYTHON = "/venv/bin/python" if os.path.exists("/venv/bin/python") else sys.executable

PINNED_ENV = {
    "PYTHONHASHSEED": "0",
    "OMP_NUM_THREADS": "1",
    "OPENBLAS_NUM_THREADS": "1",
    "MKL_NUM_THREADS": "1",
    "NUMEXPR_NUM_THREADS": "1",
    "PYTHONDONTWRITEBYTECODE": "1",
    "PYGYRO_VERIF": "1",
}

_prepared = False


def worker_env(extra=None):
    env = dict(os.environ)
    env.update(PINNED_ENV)
    pp = [VERIF]
    if os.path.isdir(DEPS):
        pp.append(DEPS)
    if env.get("PYTHONPATH"):
        pp.append(env["PYTHONPATH"])
    env["PYTHONPATH"] = os.pathsep.join(pp)
    if extra:
        env.update(extra)
    return env


def prepare(need_pygyro=True):
    """Make the working tree importable with the simulated MPI in place."""
    global _prepared
    if _prepared:
        return
    if os.path.isdir(DEPS) and DEPS not in sys.path:
        sys.path.append(DEPS)
    # the working tree takes precedence over the editable-install finder
    while REPO in sys.path:
        sys.path.remove(REPO)
    sys.path.insert(0, REPO)
    from . import simmpi
    simmpi.install()
    if need_pygyro:
        import pygyro
        here = os.path.abspath(pygyro.__file__)
        if not here.startswith(REPO + os.sep):
            raise RuntimeError("pygyro imported from %s, expected under %s" % (here, REPO))
    _prepared = True


def repo_state():
    def git(*a):
        try:
            return subprocess.run(["git", "-C", REPO] + list(a), capture_output=True,
                                  text=True, timeout=30).stdout.strip()
        except Exception:
            return ""
    head = git("rev-parse", "HEAD")
    dirty = bool(git("status", "--porcelain", "--untracked-files=no"))
    return {"path": REPO, "head": head, "dirty": dirty}


def ensure_hypothesis():
    try:
        import hypothesis  # noqa
        return True
    except ImportError:
        pass
    os.makedirs(DEPS, exist_ok=True)
    cmd = [PYTHON, "-m", "pip", "install", "--no-index", "--find-links", WHEELS,
           "--target", DEPS, "hypothesis"]
    subprocess.run(cmd, check=True)
    if DEPS not in sys.path:
        sys.path.append(DEPS)
    import hypothesis  # noqa
    return True


def setup():
    ensure_hypothesis()
    import compileall
    compileall.compile_dir(os.path.join(VERIF, "pgv"), quiet=1, force=False)
    env = worker_env()
    r = subprocess.run([PYTHON, "-m", "pgv.selftest.test_simmpi"], cwd=VERIF, env=env)
    if r.returncode != 0:
        print("setup: simmpi self test failed")
        return 2
    print("setup: ok")
    return 0


if __name__ == "__main__":
    if "--setup" in sys.argv:
        sys.exit(setup())
    print(__doc__)
