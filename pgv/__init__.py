"""pgv -- property-based verification machinery for pyccel/pygyro (see /verif/DESIGN.md)."""
