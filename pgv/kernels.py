"""
kernels -- catalogue of calls to every exported kernel of the five accelerated modules, with argument
generators (degrees, clamped/periodic/uniform knots, points on cell edges and end points, negative theta, the three
boundary modes, both time schemes, both nulBound values, float and complex rho) and a runner that executes a batch of
calls against whatever implementation is importable (pure Python from the working tree, the pyccel build in a scratch
copy, or the numba/pythran source copies behind stubs).

    python -m pgv.kernels --run IN.pkl OUT.pkl [--flavour ref|numba|pythran]
"""
import importlib
import os
import pickle
import sys
import types

import numpy as np

MODULES = {
    "nu": "pygyro.splines.spline_eval_funcs",
    "cu": "pygyro.splines.cubic_uniform_spline_eval_funcs",
    "adv": "pygyro.advection.accelerated_advection_steps",
    "pt": "pygyro.poisson.poisson_tools",
    "ini": "pygyro.initialisation.initialiser_funcs",
}
CONSTS = dict(CN0=0.14711120412124, kN0=0.055, deltaRN0=2.9, rp=7.3, CTi=1.0, kTi=0.27586, deltaRTi=1.45)
CL = [CONSTS[k] for k in ("CN0", "kN0", "deltaRN0", "rp", "CTi", "kTi", "deltaRTi")]


# ----------------------------------------------------------------------------------------
# argument generation (deterministic from a numpy Generator)
# ----------------------------------------------------------------------------------------
def knots_for(rng, p, periodic, uniform=None):
    nc = int(rng.integers(max(1, p + 1 if periodic else 1), 9))
    a = float(rng.choice([0.0, -1.5, 0.1]))
    L = float(rng.choice([1.0, 2 * np.pi, 14.4]))
    if uniform is None:
        uniform = bool(rng.integers(0, 2))
    if uniform:
        b = np.linspace(a, a + L, nc + 1)
    else:
        inc = rng.uniform(0.2, 1.0, nc)
        b = a + L * np.concatenate([[0], np.cumsum(inc)]) / inc.sum()
        b[-1] = a + L
    if periodic:
        per = b[-1] - b[0]
        t = np.concatenate([b[-p - 1:-1] - per, b, b[1:p + 1] + per])
    else:
        t = np.concatenate([np.full(p, b[0]), b, np.full(p, b[-1])])
    return np.ascontiguousarray(t, dtype=float), b, nc


def points_in(rng, b, n):
    """Evaluation points: break points, end points, one ulp inside, random interior."""
    pool = list(b) + [np.nextafter(b[0], b[-1]), np.nextafter(b[-1], b[0])] + list(rng.uniform(b[0], b[-1], 4))
    idx = rng.integers(0, len(pool), n)
    return np.ascontiguousarray(np.clip(np.array(pool)[idx], b[0], b[-1]), dtype=float)


def cu_knots(rng):
    nc = int(rng.integers(1, 9))
    xmin = float(rng.choice([0.0, -7.32, 0.1]))
    L = float(rng.choice([1.0, 2 * np.pi, 14.64]))
    b = np.linspace(xmin, xmin + L, nc + 1)
    dx = b[1] - b[0]
    return np.array([b[0], b[-1], dx, nc], dtype=float), b, nc


def gen_calls(seed, n):
    """List of (module key, function name, args list, indices of in-place output args)."""
    rng = np.random.default_rng(seed)
    calls = []
    makers = [_nu_calls, _cu_calls, _adv_calls, _pt_calls, _ini_calls, _pol_calls]
    weights = [4, 4, 3, 1, 2, 1]
    order = rng.choice(len(makers), size=n, p=np.array(weights) / sum(weights))
    for k in order:
        calls.extend(makers[k](rng))
    return calls


def _nu_calls(rng):
    p = int(rng.integers(1, 6))
    periodic = bool(rng.integers(0, 2))
    t, b, nc = knots_for(rng, p, periodic)
    c = np.ascontiguousarray(rng.standard_normal(nc + p))
    x = float(points_in(rng, b, 1)[0])
    der = int(rng.integers(0, 2))
    xs = points_in(rng, b, 5)
    out = [("nu", "nu_find_span", [t, p, x], []),
           ("nu", "nu_eval_spline_1d_scalar", [x, t, p, c, der], []),
           ("nu", "nu_eval_spline_1d_vector", [xs, t, p, c, np.zeros(5), der], [4]),
           # first point = last point, a repeated point, unsorted, into a buffer that is not zero
           ("nu", "nu_eval_spline_1d_vector", [np.concatenate([xs[::-1], xs[3:4], xs[-1:]]), t, p, c, np.full(7, -7.25), der], [4]),
           ("nu", "nu_eval_spline_1d_vector", [xs[:1].copy(), t, p, c, np.full(1, -7.25), 0], [4])]
    # span from the reference definition (right-continuous, last cell closed)
    span = int(np.clip(np.searchsorted(t, x, side="right") - 1, p, len(t) - p - 2))
    out.append(("nu", "nu_basis_funs", [t, p, x, span, np.zeros(p + 1)], [4]))
    out.append(("nu", "nu_basis_funs_1st_der", [t, p, x, span, np.zeros(p + 1)], [4]))
    p2 = int(rng.integers(1, 6))
    t2, b2, nc2 = knots_for(rng, p2, bool(rng.integers(0, 2)))
    C = np.ascontiguousarray(rng.standard_normal((nc + p, nc2 + p2)))
    d1, d2 = int(rng.integers(0, 2)), int(rng.integers(0, 2))
    y = float(points_in(rng, b2, 1)[0])
    X, Y = points_in(rng, b, 3), points_in(rng, b2, 4)
    out.append(("nu", "nu_eval_spline_2d_scalar", [x, y, t, p, t2, p2, C, d1, d2], []))
    out.append(("nu", "nu_eval_spline_2d_cross", [X, Y, t, p, t2, p2, C, np.zeros((3, 4)), d1, d2], [7]))
    out.append(("nu", "nu_eval_spline_2d_vector", [X, Y[:3].copy(), t, p, t2, p2, C, np.zeros(3), d1, d2], [7]))
    # a closed contour (first point = last point), repeated points and a single point, into a buffer that is not zero
    Xc, Yc = np.concatenate([X, X[1:2], X[:1]]), np.concatenate([Y[:3], Y[1:2], Y[:1]])
    for dd1, dd2 in ((0, 0), (d1, d2)):
        out.append(("nu", "nu_eval_spline_2d_vector", [Xc.copy(), Yc.copy(), t, p, t2, p2, C, np.full(5, -7.25), dd1, dd2], [7]))
    out.append(("nu", "nu_eval_spline_2d_vector", [X[:1].copy(), Y[:1].copy(), t, p, t2, p2, C, np.full(1, -7.25), 0, 0], [7]))
    return out


def _cu_calls(rng):
    k, b, nc = cu_knots(rng)
    c = np.ascontiguousarray(rng.standard_normal(nc + 3))
    x = float(points_in(rng, b, 1)[0])
    der = int(rng.integers(0, 2))
    xs = points_in(rng, b, 5)
    off = float(rng.choice([0.0, 1.0, rng.uniform(0, 1)]))
    out = [("cu", "cu_find_span", [float(k[0]), float(k[1]), float(k[2]), x, nc], []),
           ("cu", "cu_basis_funs", [3, off, np.zeros(4)], [2]),
           ("cu", "cu_basis_funs_1st_der", [3, off, float(k[2]), np.zeros(4)], [3]),
           ("cu", "cu_eval_spline_1d_scalar", [x, k, 3, c, der], []),
           ("cu", "cu_eval_spline_1d_vector", [xs, k, 3, c, np.zeros(5), der], [4]),
           ("cu", "cu_eval_spline_1d_vector", [np.concatenate([xs[::-1], xs[3:4], xs[-1:]]), k, 3, c, np.full(7, -7.25), der], [4]),
           ("cu", "cu_eval_spline_1d_vector", [xs[:1].copy(), k, 3, c, np.full(1, -7.25), 0], [4])]
    k2, b2, nc2 = cu_knots(rng)
    C = np.ascontiguousarray(rng.standard_normal((nc + 3, nc2 + 3)))
    d1, d2 = int(rng.integers(0, 2)), int(rng.integers(0, 2))
    y = float(points_in(rng, b2, 1)[0])
    X, Y = points_in(rng, b, 3), points_in(rng, b2, 4)
    out.append(("cu", "cu_eval_spline_2d_scalar", [x, y, k, 3, k2, 3, C, d1, d2], []))
    out.append(("cu", "cu_eval_spline_2d_cross", [X, Y, k, 3, k2, 3, C, np.zeros((3, 4)), d1, d2], [7]))
    out.append(("cu", "cu_eval_spline_2d_vector", [X, Y[:3].copy(), k, 3, k2, 3, C, np.zeros(3), d1, d2], [7]))
    Xc, Yc = np.concatenate([X, X[1:2], X[:1]]), np.concatenate([Y[:3], Y[1:2], Y[:1]])
    for dd1, dd2 in ((0, 0), (d1, d2)):
        out.append(("cu", "cu_eval_spline_2d_vector", [Xc.copy(), Yc.copy(), k, 3, k2, 3, C, np.full(5, -7.25), dd1, dd2], [7]))
    out.append(("cu", "cu_eval_spline_2d_vector", [X[:1].copy(), Y[:1].copy(), k, 3, k2, 3, C, np.full(1, -7.25), 0, 0], [7]))
    return out


def _theta_spline(rng, cubic):
    ntheta = int(rng.integers(5, 10))
    b = np.linspace(0, 2 * np.pi, ntheta + 1)
    if cubic:
        kts = np.array([0.0, b[-1], b[1] - b[0], ntheta], dtype=float)
        p = 3
    else:
        p = int(rng.integers(1, 6))
        while ntheta <= p:
            ntheta += 1
        b = np.linspace(0, 2 * np.pi, ntheta + 1)
        per = b[-1] - b[0]
        kts = np.concatenate([b[-p - 1:-1] - per, b, b[1:p + 1] + per])
    c = rng.standard_normal(ntheta)
    c = np.ascontiguousarray(np.concatenate([c, c[:p]]))
    return kts, p, c, ntheta, b


def _adv_calls(rng):
    out = []
    cubic = bool(rng.integers(0, 2))
    kts, p, c, ntheta, b = _theta_spline(rng, cubic)
    nz = int(rng.integers(7, 11))
    q = np.ascontiguousarray(np.linspace(0, 2 * np.pi, ntheta, endpoint=False))
    shifts = np.ascontiguousarray(int(rng.integers(-20, 20)) + np.arange(-2, 4), dtype=np.int64)
    tsh = np.ascontiguousarray(rng.uniform(-3, 3) * shifts.astype(float))      # negative theta before the % 2 pi
    vals = np.zeros((nz, ntheta, 6))
    out.append(("adv", "get_lagrange_vals", [int(rng.integers(0, nz)), shifts, vals, q, tsh, kts, p, c, cubic], [2]))
    f = np.ascontiguousarray(rng.standard_normal((ntheta, nz)))
    out.append(("adv", "flux_advection", [ntheta, nz, f, np.ascontiguousarray(rng.standard_normal(6)),
                                          np.ascontiguousarray(rng.standard_normal((nz, ntheta, 6)))], [2]))
    # v-parallel: clamped v space
    if cubic:
        nc = int(rng.integers(2, 9))
        vb = np.linspace(-7.32, 7.32, nc + 1)
        vk = np.array([vb[0], vb[-1], vb[1] - vb[0], nc], dtype=float)
        vp = 3
        dx = vb[1] - vb[0]
        vpts = np.concatenate([[vb[0], vb[0] + dx / 3], np.linspace(vb[0] + dx, vb[-1] - dx, nc - 1), [vb[-1] - dx / 3, vb[-1]]])
    else:
        vp = int(rng.integers(1, 6))
        nc = int(rng.integers(2, 9))
        vb = np.linspace(-7.32, 7.32, nc + 1)
        vk = np.concatenate([np.full(vp, vb[0]), vb, np.full(vp, vb[-1])])
        vpts = np.array([vk[i + 1:i + 1 + vp].sum() / vp for i in range(nc + vp)])
    coeffs = np.ascontiguousarray(rng.standard_normal(nc + vp))
    shift = float(rng.choice([0.0, 0.3, -2.1, 5.0, -40.0, 17.0]))
    feet = np.ascontiguousarray(vpts - shift)
    fv = np.zeros(len(vpts))
    for bound in (0, 1, 2):
        out.append(("adv", "v_parallel_advection_eval_step",
                    [fv.copy(), feet, float(rng.uniform(0.1, 14.5)), float(vpts[0]), float(vpts[-1]), np.ascontiguousarray(vk), vp,
                     coeffs] + CL + [bound, cubic], [0]))
    return out


def _pol_calls(rng):
    """The two poloidal kernels on a small smooth problem (needs the Python spline machinery to build coefficients)."""
    from pygyro.splines.splines import make_knots, BSplines, Spline2D
    from pygyro.splines.spline_interpolators import SplineInterpolator2D
    cubic = bool(rng.integers(0, 2))
    p1 = 3 if cubic else int(rng.integers(2, 5))
    p2 = 3 if cubic else int(rng.integers(2, 5))
    nq, ncr = int(rng.integers(6, 9)), int(rng.integers(3, 6))
    b1 = BSplines(make_knots(np.linspace(0, 2 * np.pi, nq + 1), p1, True), p1, True, cubic)
    b2 = BSplines(make_knots(np.linspace(1.0, 5.0, ncr + 1), p2, False), p2, False, cubic)
    q, r = np.ascontiguousarray(b1.greville, dtype=float), np.ascontiguousarray(b2.greville, dtype=float)
    s = (r - r[0]) / (r[-1] - r[0])
    # small, smooth potential: the implicit fixed point must be a contraction (|dt|/2 Lip(a) << 1), and no foot may
    # come within rounding distance of the radial boundary (compiled and interpreted code round differently)
    phi = sum(rng.uniform(0.02, 0.06) * np.cos(k * q[:, None] + rng.uniform(0, 6)) * (0.4 + s * (1.3 - s))[None, :]
              for k in (1, 2))
    f = np.ascontiguousarray(rng.standard_normal((len(q), len(r))))
    it = SplineInterpolator2D(b1, b2)
    sp, sf = Spline2D(b1, b2), Spline2D(b1, b2)
    it.compute_interpolant(phi, sp)
    it.compute_interpolant(f, sf)
    dt = float(rng.choice([0.5, -0.5, 1.5]))
    v = float(rng.uniform(-5, 5))
    nul = bool(rng.integers(0, 2))
    work = [np.zeros_like(f) for _ in range(8)]
    base = [f.copy(), dt, v, r, q] + work + [np.ascontiguousarray(b1.knots, dtype=float), np.ascontiguousarray(b2.knots, dtype=float),
                                             np.ascontiguousarray(sp.coeffs), p1, p2,
                                             np.ascontiguousarray(b1.knots, dtype=float), np.ascontiguousarray(b2.knots, dtype=float),
                                             np.ascontiguousarray(sf.coeffs), p1, p2] + CL + [1.0]
    out = [("adv", "poloidal_advection_step_expl", [a.copy() if isinstance(a, np.ndarray) else a for a in base] + [cubic, nul], [0])]
    # explicit scheme with a strong potential that does not vanish at the radial edges: feet leave the domain on both sides
    # (by margins far above rounding), so the boundary branches of both boundary modes are reached
    phi2 = 25.0 * phi + 2.0 * np.sin(q[:, None] + 0.7) * (0.5 + s)[None, :]
    sp2 = Spline2D(b1, b2)
    it.compute_interpolant(np.ascontiguousarray(phi2), sp2)
    strong = list(base)
    strong[15] = np.ascontiguousarray(sp2.coeffs)
    for nb in (False, True):
        out.append(("adv", "poloidal_advection_step_expl",
                    [a.copy() if isinstance(a, np.ndarray) else a for a in strong] + [cubic, nb], [0]))
    out.append(("adv", "poloidal_advection_step_impl", [a.copy() if isinstance(a, np.ndarray) else a for a in base] + [1e-10, cubic, nul], [0]))
    return out


def _pt_calls(rng):
    n, m, p_, nv = (int(x) for x in rng.integers(1, 4, 4))
    nv += 3
    grid = np.ascontiguousarray(rng.standard_normal((n, m, p_, nv)))
    feq = np.ascontiguousarray(np.abs(rng.standard_normal((n, nv))))
    w = np.ascontiguousarray(rng.uniform(0.1, 1, nv))
    out = []
    for dt in (np.float64, np.complex128):
        out.append(("pt", "get_perturbed_rho", [np.zeros((n, m, p_), dtype=dt), feq, grid, w], [0]))
        out.append(("pt", "get_rho", [np.zeros((n, m, p_), dtype=dt), grid, w], [0]))
    return out


def _ini_calls(rng):
    r = float(rng.uniform(0.1, 14.5))
    v = float(rng.uniform(-7.32, 7.32))
    th, z = float(rng.uniform(0, 6.28)), float(rng.uniform(0, 1500))
    m, n = int(rng.integers(0, 16)), int(rng.integers(-11, 3))
    c = CONSTS
    out = [("ini", "n0", [r, c["CN0"], c["kN0"], c["deltaRN0"], c["rp"]], []),
           ("ini", "Ti", [r, c["CTi"], c["kTi"], c["deltaRTi"], c["rp"]], []),
           ("ini", "Te", [r, c["CTi"], c["kTi"], c["deltaRTi"], c["rp"]], []),
           ("ini", "perturbation", [r, th, z, m, n, c["rp"], 8.0, 239.8], []),
           ("ini", "f_eq", [r, v] + CL, []),
           ("ini", "n0deriv_normalised", [r, c["kN0"], c["rp"], c["deltaRN0"]], []),
           ("ini", "init_f", [r, th, z, v, m, n, 1e-2] + CL + [8.0, 239.8], [])]
    tv = np.ascontiguousarray(rng.uniform(0, 6.28, 4))
    zv = np.ascontiguousarray(rng.uniform(0, 1500, 3))
    rv = np.ascontiguousarray(rng.uniform(0.1, 14.5, 3))
    vv = np.ascontiguousarray(rng.uniform(-7, 7, 5))
    out.append(("ini", "init_f_flux", [np.zeros((4, 3)), r, tv, zv, v, m, n, 1e-2] + CL + [8.0, 239.8], [0]))
    out.append(("ini", "init_f_pol", [np.zeros((4, 3)), rv, tv, z, v, m, n, 1e-2] + CL + [8.0, 239.8], [0]))
    out.append(("ini", "init_f_vpar", [np.zeros((4, 5)), r, tv, z, vv, m, n, 1e-2] + CL + [8.0, 239.8], [0]))
    out.append(("ini", "feq_vector", [np.zeros((3, 5)), rv, vv] + CL, [0]))
    return out


# ----------------------------------------------------------------------------------------
# loading implementations
# ----------------------------------------------------------------------------------------
def _install_numba_stubs():
    class _T:
        def __getitem__(self, k):
            return self

        def __call__(self, *a, **k):
            return self

    def njit(*a, **k):
        if a and callable(a[0]) and not k:
            return a[0]
        return lambda f: f

    class CC:
        def __init__(self, name):
            self.name = name

        def export(self, name, sig):
            return lambda f: f

        def compile(self):
            pass
    nb = types.ModuleType("numba")
    nb.njit = njit
    nb.jit = njit
    ty = types.ModuleType("numba.types")
    for n in ("f8", "f4", "i4", "i8", "b1", "c16", "void"):
        setattr(ty, n, _T())
        setattr(nb, n, _T())
    nb.types = ty
    pycc = types.ModuleType("numba.pycc")
    pycc.CC = CC
    nb.pycc = pycc
    sys.modules.update({"numba": nb, "numba.types": ty, "numba.pycc": pycc})


def load_modules(flavour, repo):
    """{key: module} for flavour in ref | numba | pythran."""
    if flavour == "ref":
        return {k: importlib.import_module(m) for k, m in MODULES.items()}
    pyg = os.path.join(repo, "pygyro")
    if flavour == "numba":
        _install_numba_stubs()
        if pyg not in sys.path:
            sys.path.insert(1, pyg)
        names = {"nu": "splines.numba_spline_eval_funcs", "cu": "splines.numba_cubic_uniform_spline_eval_funcs",
                 "adv": "advection.numba_accelerated_advection_steps", "pt": "poisson.numba_poisson_tools",
                 "ini": "initialisation.numba_initialiser_funcs"}
    else:
        for d in (os.path.join(pyg, "advection", "pythran_deps"),):
            if d not in sys.path:
                sys.path.insert(1, d)
        if pyg not in sys.path:
            sys.path.insert(1, pyg)
        names = {"nu": "pythran_spline_eval_funcs", "cu": "pythran_cubic_uniform_spline_eval_funcs",
                 "adv": "pythran_accelerated_advection_steps", "pt": "poisson.pythran_poisson_tools",
                 "ini": "pythran_initialiser_funcs"}
    out = {}
    for k, m in names.items():
        try:
            out[k] = importlib.import_module(m)
        except Exception as e:  # noqa
            out[k] = e
    return out


def run_calls(calls, mods, budget=None, progress=None, skip=()):
    """Execute the calls; returns list of ('ok', result, [in-place arrays]) or ('error', text).
    budget: optional line-event budget per call (deterministic non-termination verdict for interpreted code).
    progress: optional path; the index and name of the call about to run is written there first, so that the parent can
    tell which call a compiled kernel was in when it took the whole interpreter down."""
    res = []
    for idx, (key, fn, args, outs) in enumerate(calls):
        if progress:
            with open(progress, "w") as pf:
                pf.write("%d %s.%s" % (idx, key, fn))
        if idx in skip:
            res.append(("skipped-hang", "left out: an earlier run of this batch did not get past this call"))
            continue
        mod = mods.get(key)
        if isinstance(mod, Exception) or mod is None:
            res.append(("missing-module", repr(mod)))
            continue
        f = getattr(mod, fn, None)
        if f is None:
            res.append(("missing-function", fn))
            continue
        a = [x.copy() if isinstance(x, np.ndarray) else x for x in args]
        try:
            if budget:
                from .harness import traced_call, Nontermination
                try:
                    r = traced_call(lambda aa: f(*aa), a, budget)
                except Nontermination:
                    res.append(("nontermination", "more than %d line events" % budget))
                    continue
            else:
                r = f(*a)
            res.append(("ok", r, [a[i] for i in outs], [a[i] for i, x in enumerate(a) if isinstance(x, np.ndarray) and i not in outs]))
        except Exception as e:  # noqa
            res.append(("error", "%s: %s" % (type(e).__name__, e)))
    return res


def main(argv):
    if len(argv) >= 4 and argv[1] == "--run":
        flavour = argv[5] if len(argv) > 5 and argv[4] == "--flavour" else "ref"
        budget = int(argv[argv.index("--budget") + 1]) if "--budget" in argv else None
        skip = [int(x) for x in argv[argv.index("--skip") + 1].split(",")] if "--skip" in argv else []
        from . import bootstrap
        bootstrap.prepare()
        import warnings
        warnings.simplefilter("ignore")
        with open(argv[2], "rb") as f:
            calls = pickle.load(f)
        mods = load_modules(flavour, bootstrap.REPO)
        files = {k: getattr(m, "__file__", None) for k, m in mods.items()}
        exported = {k: sorted(n for n in dir(m) if not n.startswith("_") and callable(getattr(m, n)))
                    for k, m in mods.items() if not isinstance(m, Exception)}
        with open(argv[3], "wb") as f:
            pickle.dump({"results": run_calls(calls, mods, budget, argv[3] + ".progress", skip), "files": files,
                         "exported": exported}, f)
        return 0
    print(__doc__)
    return 0


if __name__ == "__main__":
    sys.exit(main(sys.argv))
