"""
gen -- Hypothesis strategies shared by the checks (spaces of shapes, process grids, layout sets,
schedules).  Every strategy produces plain JSON-serialisable values.
"""
import itertools

from hypothesis import strategies as st

NAME_ALPHABET = "abxyzQR_"


@st.composite
def names(draw, n):
    """n distinct short layout names (their order matters for route tie-breaking)."""
    out = draw(st.lists(st.text(NAME_ALPHABET, min_size=1, max_size=3), min_size=n, max_size=n,
                        unique=True))
    return out


def schedules(max_len=24):
    return st.lists(st.integers(0, 11), min_size=0, max_size=max_len)


def all_process_grids(max_procs, min_len=1, max_len=2, max_entry=6):
    out = []
    for ln in range(min_len, max_len + 1):
        for p in itertools.product(range(1, max_entry + 1), repeat=ln):
            prod = 1
            for x in p:
                prod *= x
            if prod <= max_procs:
                out.append(list(p))
    return out


def process_grid(max_procs, ndims, min_len=1, max_len=2, max_entry=6):
    """nprocs list (length 1..2, entries 1..max_entry, product <= max_procs)."""
    return st.sampled_from(all_process_grids(max_procs, min_len, min(max_len, ndims), max_entry))


@st.composite
def connected_layout_set(draw, ndims, ndist, max_layouts=6):
    """
    Layout set connected by construction: each new ordering differs from an existing one in at
    most one of the first `ndist` (distributed) positions; undistributed positions are permuted
    freely.
    """
    first = list(draw(st.permutations(list(range(ndims)))))
    perms = [first]
    n = draw(st.integers(1, max_layouts))
    tries = 0
    while len(perms) < n and tries < 20:
        tries += 1
        base = list(perms[draw(st.integers(0, len(perms) - 1))])
        if ndims > ndist and draw(st.booleans()):
            i = draw(st.integers(0, ndist - 1))
            j = draw(st.integers(ndist, ndims - 1))
            base[i], base[j] = base[j], base[i]
        tail = base[ndist:]
        tail = list(draw(st.permutations(tail))) if len(tail) > 1 else tail
        new = base[:ndist] + tail
        if new not in perms:
            perms.append(new)
    return perms


@st.composite
def arbitrary_layout_set(draw, ndims, max_layouts=6):
    allp = [list(p) for p in itertools.permutations(range(ndims))]
    idx = draw(st.lists(st.integers(0, len(allp) - 1), min_size=1, max_size=max_layouts, unique=True))
    return [allp[i] for i in idx]


def min_extents(ndims, nprocs, perms):
    """Smallest admissible extent of every dimension: p_i <= n for every dim put at position i."""
    mins = [1] * ndims
    for perm in perms:
        for i, p in enumerate(nprocs):
            d = perm[i]
            mins[d] = max(mins[d], p)
    return mins


@st.composite
def extents(draw, mins, max_extent=9):
    """Extents >= mins, biased to n=p, n=p+1, n=2p-1, n=2p+1."""
    out = []
    for m in mins:
        cands = sorted({m, m + 1, max(m, 2 * m - 1), 2 * m, 2 * m + 1})
        cands = [c for c in cands if c <= max(max_extent, m)]
        if draw(st.integers(0, 3)) == 0:
            out.append(draw(st.integers(m, max(max_extent, m))))
        else:
            out.append(draw(st.sampled_from(cands)))
    return out


@st.composite
def maybe_short(draw, shape, mins, lo=1, one_in=6):
    """With probability 1/one_in give one distributed dimension fewer points than processes along its direction
    (lo <= n < p): the ranks at the start of that direction then own an empty block.  The driver meets this when
    mode_solve spreads few theta modes over many ranks."""
    shape = list(shape)
    cand = [i for i, m in enumerate(mins) if m - 1 >= lo]
    if cand and draw(st.integers(0, one_in - 1)) == 0:
        d = draw(st.sampled_from(cand))
        shape[d] = draw(st.integers(lo, mins[d] - 1))
    return shape


# ----------------------------------------------------------------------------------------
# spline spaces
# ----------------------------------------------------------------------------------------
import math  # noqa: E402

# the last entries are "non-round" on purpose: BSplines.greville rounds the interpolation points to 15 decimals, which moves
# the end nodes of such domains by an ulp relative to the knots (round numbers never show that)
ORIGINS = [0.0, -1.0, 0.1, -3.75, 2.0, 100.0, -7.32, -5 * math.sqrt(2), math.e / 10]
LENGTHS = [1.0, 2 * math.pi, 0.01, 14.4, 1000.0, 1.0 / 3.0, 14.64, 1506.759067, 10 * math.sqrt(2), math.pi / 3]


@st.composite
def spline_space(draw, max_degree=5, min_cells=1, max_cells=12, periodic=None, cubic_uniform=None,
                 uniform_breaks=None):
    """
    Space dict for oracles.bspl: degree, periodic, uniform (flag), breaks.
    cubic_uniform: True -> force the uniform-cubic fast path, False -> never, None -> either.
    """
    if cubic_uniform is True:
        p = 3
    else:
        p = draw(st.integers(1, max_degree))
    per = draw(st.booleans()) if periodic is None else periodic
    lo = max(min_cells, p) if per else min_cells       # make_knots admits periodic spaces with cells >= degree
    nc = draw(st.integers(lo, max(max_cells, lo)))
    a = draw(st.sampled_from(ORIGINS))
    L = draw(st.sampled_from(LENGTHS))
    if cubic_uniform is True:
        ub = True
    elif uniform_breaks is None:
        ub = draw(st.booleans())
    else:
        ub = uniform_breaks
    if ub:
        breaks = [a + L * k / nc for k in range(nc)] + [a + L]
        import numpy as _np
        breaks = [float(x) for x in _np.linspace(a, a + L, nc + 1)]
        flag = True if cubic_uniform is True else draw(st.booleans())
        if cubic_uniform is False and p == 3:
            flag = False
    else:
        inc = draw(st.lists(st.floats(0.05, 1.0), min_size=nc, max_size=nc))
        tot = sum(inc)
        acc = 0.0
        breaks = [a]
        for x in inc:
            acc += x
            breaks.append(a + L * acc / tot)
        breaks[-1] = a + L
        if not all(b1 > b0 for b0, b1 in zip(breaks, breaks[1:])):
            breaks = [float(x) for x in __import__("numpy").linspace(a, a + L, nc + 1)]
            ub = True
        flag = False
    return {"degree": p, "periodic": per, "uniform": bool(flag), "breaks": breaks, "uniform_breaks": bool(ub)}


def coeff_values(n, magnitude=1e3):
    """n coefficients: generated floats, unit vectors, zeros, constants."""
    floats = st.floats(-magnitude, magnitude, allow_nan=False, allow_infinity=False)
    unit = st.integers(0, max(n - 1, 0)).map(lambda j: [1.0 if i == j else 0.0 for i in range(n)])
    return st.one_of(st.lists(floats, min_size=n, max_size=n),
                     st.lists(floats, min_size=n, max_size=n),
                     unit,
                     st.sampled_from([-2.5, 0.0, 1.0, 7.0]).map(lambda v: [v] * n))
